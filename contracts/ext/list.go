package vcext

import (
	"container/list"
	"container/ring"
)

// container/list (ASSUMED): a list is summarised by ghost state — its length, the set of its elements,
// its front element, and the sum of ghost_weight(e.Value) over its elements for a fixed, state-
// independent weight function.  ghost_lnonfront(l) counts Remove calls whose element was not the
// front at that time; ghost_lmark(l) is the value of that counter at the most recent PushBack, so
// "ghost_lnonfront(l) == ghost_lmark(l)" says: since the last PushBack only front elements were removed.
func ghost_llen(l *list.List) int                   { panic("ghost") }
func ghost_lsum(l *list.List) int64                 { panic("ghost") }
func ghost_lmem(l *list.List) vcSet[*list.Element]  { panic("ghost") }
func ghost_lfront(l *list.List) *list.Element       { panic("ghost") }
func ghost_lnonfront(l *list.List) int              { panic("ghost") }
func ghost_lmark(l *list.List) int                  { panic("ghost") }
func ghost_weight(v any) int64                      { panic("ghost") }

//@ ext (*container/list.List).PushBack(l *list.List, v any) (e *list.Element)
//@   requires l != nil
//@   modifies ghost_llen(l), ghost_lsum(l), ghost_lmem(l), ghost_lfront(l), ghost_lmark(l)
//@   ensures e != nil && vcFresh(e) && e.Value == v
//@   ensures ghost_llen(l) == old(ghost_llen(l)) + 1 && ghost_lsum(l) == old(ghost_lsum(l)) + ghost_weight(v)
//@   ensures forall x *list.Element :: { vcIn(ghost_lmem(l), x) } vcIn(ghost_lmem(l), x) == (old(vcIn(ghost_lmem(l), x)) || x == e)
//@   ensures ghost_lfront(l) == vcIte(old(ghost_llen(l)) == 0, e, old(ghost_lfront(l)))
//@   ensures ghost_lmark(l) == ghost_lnonfront(l)

//@ ext (*container/list.List).Front(l *list.List) (e *list.Element)
//@   requires l != nil
//@   ensures e == ghost_lfront(l) && ghost_llen(l) >= 0
//@   ensures ghost_llen(l) == 0 ==> e == nil && ghost_lsum(l) == 0
//@   ensures ghost_llen(l) > 0 ==> e != nil && vcIn(ghost_lmem(l), e)

//@ ext (*container/list.List).Remove(l *list.List, e *list.Element) (v any)
//@   requires l != nil && e != nil
//@   modifies ghost_llen(l), ghost_lsum(l), ghost_lmem(l), ghost_lfront(l), ghost_lnonfront(l)
//@   ensures v == e.Value && ghost_llen(l) >= 0
//@   ensures old(vcIn(ghost_lmem(l), e)) ==> ghost_llen(l) == old(ghost_llen(l)) - 1 && ghost_lsum(l) == old(ghost_lsum(l)) - ghost_weight(e.Value) &&
//@      ghost_lnonfront(l) == old(ghost_lnonfront(l)) + vcIte(e == old(ghost_lfront(l)), 0, 1)
//@   ensures !old(vcIn(ghost_lmem(l), e)) ==> ghost_llen(l) == old(ghost_llen(l)) && ghost_lsum(l) == old(ghost_lsum(l)) &&
//@      ghost_lnonfront(l) == old(ghost_lnonfront(l)) && ghost_lfront(l) == old(ghost_lfront(l))
//@   ensures forall x *list.Element :: { vcIn(ghost_lmem(l), x) } vcIn(ghost_lmem(l), x) == (old(vcIn(ghost_lmem(l), x)) && x != e)
//@   ensures e != old(ghost_lfront(l)) ==> ghost_lfront(l) == old(ghost_lfront(l))

// container/ring (ASSUMED): a ring element's successor never changes (Link / Unlink are not used);
// ring.New(n) is nil exactly for n <= 0.
func ghost_rnext(r *ring.Ring) *ring.Ring { panic("ghost") }

//@ ext (*container/ring.Ring).Next(r *ring.Ring) (n *ring.Ring)
//@   requires r != nil
//@   ensures n != nil && n == ghost_rnext(r)
//@ ext container/ring.New(n int) (r *ring.Ring)
//@   ensures (n <= 0) == (r == nil)
//@ ext (*container/ring.Ring).Do(r *ring.Ring, f func(any))
//@   attr calls-arg=1
