package vcext

import (
	"bytes"
	"io"
	"net/mail"
	"net/textproto"
	"strings"

	"github.com/jhillyerd/enmime/v2"
	etp "github.com/jhillyerd/enmime/v2/internal/textproto"
)

var _ enmime.Envelope
var _ etp.MIMEHeader
var _ mail.Address
var _ textproto.MIMEHeader
var _ io.Reader
var _ = strings.NewReader
var _ = bytes.NewReader

// enmime header decoding: results are arbitrary (third-party parser); only shape facts are assumed.
//@ ext github.com/jhillyerd/enmime/v2.DecodeHeaders(b []byte, addtlHeaders []string) (h etp.MIMEHeader, err error)
//@ ext github.com/jhillyerd/enmime/v2.ParseAddressList(list string) (r []*mail.Address, err error)
//@   ensures err == nil ==> forall k int :: { r[k] } 0 <= k && k < len(r) ==> r[k] != nil
//@   ensures vcFresh(r) || len(r) == 0
//@ ext (net/textproto.MIMEHeader).Get(h textproto.MIMEHeader, key string) (r string)

// Readers: ghost_rdContent(r) is the byte string a reader will produce.
func ghost_rdContent(r io.Reader) string { panic("ghost") }

// Content (C02): ghost_rcontent(r) is what a reader yields from now until EOF, as an abstract token;
// ghost_wcontent(w) is what a writer has received so far.  (ASSUMED library semantics.)
func ghost_rcontent(r io.Reader) vcTok { panic("ghost") }
func ghost_wcontent(w io.Writer) vcTok { panic("ghost") }

//@ ext strings.NewReader(s string) (r *strings.Reader)
//@   ensures r != nil && vcFresh(r) && ghost_rcontent(r) == vcTokStr(s)
//@ ext bytes.NewReader(b []byte) (r *bytes.Reader)
//@   ensures r != nil && vcFresh(r) && ghost_rcontent(r) == vcTokBytes(b)
//@ ext io.MultiReader(readers []io.Reader) (r io.Reader)
//@   ensures r != nil
//@   ensures len(readers) == 3 ==> ghost_rcontent(r) == vcTokCat(ghost_rcontent(readers[0]), vcTokCat(ghost_rcontent(readers[1]), ghost_rcontent(readers[2])))
//@ ext io.NopCloser(r io.Reader) (rc io.ReadCloser)
//@   ensures rc != nil && ghost_rcontent(rc) == ghost_rcontent(r)

//@ ext (github.com/jhillyerd/enmime/v2/internal/textproto.MIMEHeader).Get(h etp.MIMEHeader, key string) (r string)
