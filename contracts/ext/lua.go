package vcext

import (
	lua "github.com/yuin/gopher-lua"
)

var _ lua.LState

// gopher-lua (ASSUMED): only what the Go glue of the Lua host relies on.  Running a script
// (CallByParam) may do anything to the heap; its error result and the value read back from the
// stack afterwards are recorded as ghosts of the state.
func ghost_lastPushed(ls *lua.LState) lua.LValue { panic("ghost") }
func ghost_lastCallErr(ls *lua.LState) error     { panic("ghost") }
func ghost_lastGot(ls *lua.LState) lua.LValue    { panic("ghost") }

//@ ext (*github.com/yuin/gopher-lua.LState).NewUserData(ls *lua.LState) (ud *lua.LUserData)
//@   ensures ud != nil && vcFresh(ud)
//@ ext (*github.com/yuin/gopher-lua.LState).GetTypeMetatable(ls *lua.LState, typ string) (v lua.LValue)
//@ ext (*github.com/yuin/gopher-lua.LState).SetMetatable(ls *lua.LState, obj lua.LValue, mt lua.LValue)
//@ ext (*github.com/yuin/gopher-lua.LState).OptInt(ls *lua.LState, n int, d int) (r int)
//@ ext (*github.com/yuin/gopher-lua.LState).OptString(ls *lua.LState, n int, d string) (r string)
//@ ext (*github.com/yuin/gopher-lua.LState).Push(ls *lua.LState, value lua.LValue)
//@   modifies ghost_lastPushed(ls)
//@   ensures ghost_lastPushed(ls) == value
// (a script reaches Go objects only through the userdata it is handed — copies of the event — and
// through the Lua state: the host's own objects are out of its reach)
//@ ext (*github.com/yuin/gopher-lua.LState).CallByParam(ls *lua.LState, cp lua.P, args []lua.LValue) (err error)
//@   modifies ghost_lastCallErr(ls), ghost_lastPushed(ls), ghost_lastGot(ls)
//@   attr result-ghost=ghost_lastCallErr
//@ ext (*github.com/yuin/gopher-lua.LState).Get(ls *lua.LState, idx int) (v lua.LValue)
//@   modifies ghost_lastGot(ls)
//@   ensures v != nil && Spec_lvOK(v)
//@   attr result-ghost=ghost_lastGot

// A Lua value never holds a nil userdata pointer.
//@ func Spec_lvOK
//@   inline
func Spec_lvOK(lv lua.LValue) bool {
	ud, ok := lv.(*lua.LUserData)
	return !ok || ud != nil
}
//@ ext (*github.com/yuin/gopher-lua.LState).Pop(ls *lua.LState, n int)
//@ iface github.com/yuin/gopher-lua.LValue.Type(self lua.LValue) (t lua.LValueType)
//@ ext (github.com/yuin/gopher-lua.LValueType).String(t lua.LValueType) (s string)
//@ ext github.com/yuin/gopher-lua.LVIsFalse(v lua.LValue) (r bool)
