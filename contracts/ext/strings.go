// Package vcext holds the ASSUMED contracts of external (standard-library / third-party) functions.
// Nothing here is verified: every clause is part of the trusted base (DESIGN.md section 4.3, T1) and
// each use is listed in the evidence of the property it served.
package vcext

import "strings"

var _ = strings.ToLower

func spec_lcb(c byte) byte {
	if 'A' <= c && c <= 'Z' {
		return c + 32
	}
	return c
}

//@ pred spec_ascii(s string) bool = forall i int :: 0 <= i && i < len(s) ==> s[i] < 128

//@ ext strings.ToLower(s string) (r string)
//@   pure
//@   ensures spec_ascii(s) ==> len(r) == len(s)
//@   ensures spec_ascii(s) ==> forall i int :: { r[i] } 0 <= i && i < len(s) ==> r[i] == spec_lcb(s[i])

//@ ext strings.IndexByte(s string, c byte) (r int)
//@   pure
//@   ensures -1 <= r && r < len(s)
//@   ensures r >= 0 ==> s[r] == c
//@   ensures r >= 0 ==> forall k int :: { s[k] } 0 <= k && k < r ==> s[k] != c
//@   ensures r == -1 ==> forall k int :: { s[k] } 0 <= k && k < len(s) ==> s[k] != c
