// Package vcext holds the ASSUMED contracts of external (standard-library / third-party) functions.
// Nothing here is verified: every clause is part of the trusted base (DESIGN.md section 4.3, T1) and
// each use is listed in the evidence of the property it served.
package vcext

import (
	"net"
	"strings"
)

var _ net.IP

var _ = strings.ToLower

func spec_lcb(c byte) byte {
	if 'A' <= c && c <= 'Z' {
		return c + 32
	}
	return c
}

//@ pred spec_ascii(s string) bool = forall i int :: 0 <= i && i < len(s) ==> s[i] < 128

//@ ext strings.ToLower(s string) (r string)
//@   pure
//@   ensures spec_ascii(s) ==> len(r) == len(s)
//@   ensures spec_ascii(s) ==> forall i int :: { r[i] } 0 <= i && i < len(s) ==> r[i] == spec_lcb(s[i])

//@ ext strings.IndexByte(s string, c byte) (r int)
//@   pure
//@   ensures -1 <= r && r < len(s)
//@   ensures r >= 0 ==> s[r] == c
//@   ensures r >= 0 ==> forall k int :: { s[k] } 0 <= k && k < r ==> s[k] != c
//@   ensures r == -1 ==> forall k int :: { s[k] } 0 <= k && k < len(s) ==> s[k] != c

//@ ext strings.Index(s string, substr string) (r int)
//@   pure
//@   ensures -1 <= r && r <= len(s) - len(substr) || r == -1
//@   ensures r >= 0 ==> r + len(substr) <= len(s) && s[r:r+len(substr)] == substr
//@   ensures len(substr) == 1 && r >= 0 ==> s[r] == substr[0]
//@   ensures len(substr) == 1 && r >= 0 ==> forall k int :: { s[k] } 0 <= k && k < r ==> s[k] != substr[0]
//@   ensures len(substr) == 1 && r == -1 ==> forall k int :: { s[k] } 0 <= k && k < len(s) ==> s[k] != substr[0]

//@ ext strings.HasPrefix(s string, prefix string) (r bool)
//@   pure
//@   ensures r == (len(s) >= len(prefix) && s[:len(prefix)] == prefix)

//@ pred spec_ipChar(c byte) bool = ('0' <= c && c <= '9') || ('a' <= c && c <= 'f') || ('A' <= c && c <= 'F') || c == ':' || c == '.'

// net.ParseIP accepts only dotted-quad and colon-hex text (no zones): a non-nil result implies the
// input consists of hex digits, ':' and '.'.
//@ ext net.ParseIP(s string) (r net.IP)
//@   pure
//@   ensures r != nil ==> len(s) >= 2 && forall k int :: { s[k] } 0 <= k && k < len(s) ==> spec_ipChar(s[k])

func spec_ucb(c byte) byte {
	if 'a' <= c && c <= 'z' {
		return c - 32
	}
	return c
}

//@ ext strings.ToUpper(s string) (r string)
//@   pure
//@   ensures spec_ascii(s) ==> len(r) == len(s)
//@   ensures spec_ascii(s) ==> forall i int :: { r[i] } 0 <= i && i < len(s) ==> r[i] == spec_ucb(s[i])

// Trim / TrimRight return a substring of s (cutset semantics are not needed by the callers in scope
// beyond: the result is a contiguous part of s, and an empty cutset-free string is unchanged).
//@ ext strings.Trim(s string, cutset string) (r string)
//@   pure
//@   ensures len(r) <= len(s)
//@   ensures exists lo int :: 0 <= lo && lo + len(r) <= len(s) && r == s[lo:lo+len(r)]

//@ ext strings.TrimRight(s string, cutset string) (r string)
//@   pure
//@   ensures len(r) <= len(s) && r == s[:len(r)]

//@ ext strings.IndexRune(s string, r rune) (i int)
//@   pure
//@   ensures -1 <= i && i < len(s)
//@   ensures 0 <= r && r < 128 && i >= 0 ==> s[i] == byte(r)
//@   ensures 0 <= r && r < 128 && i >= 0 ==> forall k int :: { s[k] } 0 <= k && k < i ==> s[k] != byte(r)
//@   ensures 0 <= r && r < 128 && i == -1 ==> forall k int :: { s[k] } 0 <= k && k < len(s) ==> s[k] != byte(r)

// SplitN with n > 0 returns between 1 and n substrings in a fresh slice.
//@ ext strings.SplitN(s string, sep string, n int) (r []string)
//@   ensures n > 0 ==> 1 <= len(r) && len(r) <= n && vcFresh(r)

// Split with a non-empty separator returns at least one substring, in a fresh slice.
//@ ext strings.Split(s string, sep string) (r []string)
//@   ensures len(sep) > 0 ==> len(r) >= 1 && vcFresh(r)

//@ ext strings.ReplaceAll(s string, old string, new string) (r string)
//@   pure
