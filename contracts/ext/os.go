package vcext

import (
	"bufio"
	"encoding/gob"
	"io"
	"io/fs"
	"os"
	"path/filepath"
	"time"
)

var _ bufio.Writer
var _ gob.Encoder
var _ io.Reader
var _ fs.FileInfo
var _ = filepath.Join
var _ time.Time

// ---------------------------------------------------------------------------------------------
// Ghost file system (C10, C11).  Per path:
//   ghost_exists(p)    a file or directory exists at p;
//   ghost_complete(p)  the file at p holds everything that was written to it and flushed: it is a
//                      complete gob stream (false from the moment the file is created / truncated
//                      until a Flush of its buffered writer succeeds);
//   ghost_items(p)     how many values the complete stream holds.
// Buffered writes may reach the disk at any time in any prefix: nothing is assumed about a file
// between Create and a successful Flush except that it is not known to be complete.
// Process death, not power loss: no fsync reasoning; rename and unlink are atomic.
func ghost_exists(p string) bool   { panic("ghost") }
func ghost_complete(p string) bool { panic("ghost") }
func ghost_items(p string) int     { panic("ghost") }

func ghost_fpath(f *os.File) string        { panic("ghost") }
func ghost_wfile(w *bufio.Writer) *os.File { panic("ghost") }
func ghost_wcount(w *bufio.Writer) int     { panic("ghost") }
func ghost_encw(e *gob.Encoder) io.Writer  { panic("ghost") }

// What a complete index file decodes to (the file store's contracts speak about it; declared here so
// that the contracts of Create and Rename can say what happens to it).
func ghost_idxIDs(p string) vcSeq[string] { panic("ghost") }
func ghost_idxSeen(p string) vcSeq[bool]  { panic("ghost") }
func ghost_idxName(p string) string       { panic("ghost") }

// ghost_fcontent(p): the content of the file at p as an abstract token (C02).
func ghost_fcontent(p string) vcTok { panic("ghost") }

// Reading: ghost_rpath(r) is the path of the file a reader reads from; a gob decoder has the path of
// its source and the number of values decoded so far.
func ghost_rpath(r io.Reader) string         { panic("ghost") }
func ghost_decpath(d *gob.Decoder) string    { panic("ghost") }
func ghost_decpos(d *gob.Decoder) int        { panic("ghost") }

//@ ext encoding/gob.NewDecoder(r io.Reader) (d *gob.Decoder)
//@   ensures d != nil && vcFresh(d) && ghost_decpath(d) == ghost_rpath(r) && ghost_decpos(d) == 0

// (a Stat error is read as "no such file", as the store itself does)
//@ ext os.Stat(name string) (fi fs.FileInfo, err error)
//@   ensures (err == nil) == ghost_exists(name)

//@ ext os.MkdirAll(path string, perm fs.FileMode) (err error)
//@   modifies ghost_exists(path)
//@   ensures err == nil ==> ghost_exists(path)
//@   attr fs-mutating=1

// os.Create truncates: an existing file at that path is empty from this moment on.
//@ ext os.Create(name string) (f *os.File, err error)
//@   modifies ghost_exists(name), ghost_complete(name), ghost_items(name), ghost_fcontent(name), ghost_idxIDs(name), ghost_idxSeen(name), ghost_idxName(name)
//@   ensures err == nil ==> f != nil && vcFresh(f) && ghost_fpath(f) == name && ghost_exists(name) && !ghost_complete(name) && ghost_fcontent(name) == vcTokEmpty()
//@   ensures err != nil ==> f == nil
//@   ensures[failureChangesNothing] err != nil ==> ghost_exists(name) == old(ghost_exists(name)) && ghost_complete(name) == old(ghost_complete(name)) && ghost_items(name) == old(ghost_items(name))
//@   attr fs-mutating=1

//@ ext os.Open(name string) (f *os.File, err error)
//@   ensures err == nil ==> f != nil && vcFresh(f) && ghost_fpath(f) == name && ghost_exists(name) && ghost_rpath(f) == name && ghost_rcontent(f) == ghost_fcontent(name)
//@   ensures err != nil ==> f == nil

//@ ext (*os.File).Close(f *os.File) (err error)
//@ ext (*os.File).Readdirnames(f *os.File, n int) (names []string, err error)
//@   ensures vcFresh(names) || len(names) == 0

// os.Remove / os.Rename are atomic.
//@ ext os.IsNotExist(err error) (r bool)
//@   pure

//@ ext os.Remove(name string) (err error)
//@   modifies ghost_exists(name), ghost_complete(name), ghost_items(name)
//@   ensures err == nil ==> !ghost_exists(name)
//@   ensures[notExistMeansAbsent] err != nil && os.IsNotExist(err) ==> !ghost_exists(name)
//@   ensures err != nil ==> ghost_exists(name) == old(ghost_exists(name)) && ghost_complete(name) == old(ghost_complete(name)) && ghost_items(name) == old(ghost_items(name))
//@   attr fs-mutating=1

//@ ext os.Rename(oldpath string, newpath string) (err error)
//@   modifies ghost_exists(oldpath), ghost_complete(oldpath), ghost_items(oldpath), ghost_exists(newpath), ghost_complete(newpath), ghost_items(newpath), ghost_idxIDs(newpath), ghost_idxSeen(newpath), ghost_idxName(newpath)
//@   ensures err == nil ==> !ghost_exists(oldpath) && ghost_exists(newpath) && ghost_complete(newpath) == old(ghost_complete(oldpath)) && ghost_items(newpath) == old(ghost_items(oldpath))
//@   ensures[contentMoves] err == nil ==> ghost_idxName(newpath) == old(ghost_idxName(oldpath)) &&
//@      (forall i int :: { vcSeqAt(ghost_idxIDs(newpath), i) } vcSeqAt(ghost_idxIDs(newpath), i) == old(vcSeqAt(ghost_idxIDs(oldpath), i))) &&
//@      (forall i int :: { vcSeqAt(ghost_idxSeen(newpath), i) } vcSeqAt(ghost_idxSeen(newpath), i) == old(vcSeqAt(ghost_idxSeen(oldpath), i)))
//@   ensures err != nil ==> ghost_exists(newpath) == old(ghost_exists(newpath)) && ghost_complete(newpath) == old(ghost_complete(newpath)) && ghost_items(newpath) == old(ghost_items(newpath)) && ghost_idxName(newpath) == old(ghost_idxName(newpath)) &&
//@      (forall i int :: { vcSeqAt(ghost_idxIDs(newpath), i) } vcSeqAt(ghost_idxIDs(newpath), i) == old(vcSeqAt(ghost_idxIDs(newpath), i))) &&
//@      (forall i int :: { vcSeqAt(ghost_idxSeen(newpath), i) } vcSeqAt(ghost_idxSeen(newpath), i) == old(vcSeqAt(ghost_idxSeen(newpath), i)))
//@   attr fs-mutating=1

// RemoveAll is not atomic: the files below the directory disappear one by one, in no particular order.
// The state it leaves behind — and every state a crash in the middle of it leaves behind, which is why
// nothing more is promised even on success — is: nothing new exists; anything may be gone (that only
// things below the directory go is not stated: no proof needs it).
//@ ext os.RemoveAll(path string) (err error)
//@   modifies allof(ghost_exists)
//@   ensures err == nil ==> !ghost_exists(path)
//@   ensures[onlyRemoves] forall q string :: { ghost_exists(q) } ghost_exists(q) ==> old(ghost_exists(q))
//@   attr fs-mutating=1

//@ ext bufio.NewWriter(w io.Writer) (b *bufio.Writer)
//@   ensures b != nil && vcFresh(b) && ghost_wcount(b) == 0 && (w.(*os.File) != nil ==> ghost_wfile(b) == w.(*os.File)) && ghost_wcontent(b) == vcTokEmpty()

//@ ext encoding/gob.NewEncoder(w io.Writer) (e *gob.Encoder)
//@   ensures e != nil && vcFresh(e) && ghost_encw(e) == w

// Encode appends one value to the stream buffered in the writer (part of it may already reach the file).
//@ ext (*encoding/gob.Encoder).Encode(e *gob.Encoder, v any) (err error)
//@   modifies ghost_wcount(ghost_encw(e).(*bufio.Writer))
//@   ensures err == nil ==> ghost_wcount(ghost_encw(e).(*bufio.Writer)) == old(ghost_wcount(ghost_encw(e).(*bufio.Writer))) + 1
//@   attr fs-mutating=1

// A successful Flush makes the file complete: it holds every value encoded so far.
//@ ext (*bufio.Writer).Flush(b *bufio.Writer) (err error)
//@   modifies ghost_complete(ghost_fpath(ghost_wfile(b))), ghost_items(ghost_fpath(ghost_wfile(b))), ghost_fcontent(ghost_fpath(ghost_wfile(b)))
//@   ensures err == nil ==> ghost_complete(ghost_fpath(ghost_wfile(b))) && ghost_items(ghost_fpath(ghost_wfile(b))) == ghost_wcount(b)
//@   ensures err == nil ==> ghost_fcontent(ghost_fpath(ghost_wfile(b))) == vcTokCat(old(ghost_fcontent(ghost_fpath(ghost_wfile(b)))), ghost_wcontent(b))
//@   attr fs-mutating=1


//@ ext path/filepath.Dir(path string) (r string)
//@   pure



// io.Copy to a buffered writer of a file: bytes reach the buffer (and possibly the disk); the count is returned.
//@ ext (*bufio.Writer).Write(b *bufio.Writer, p []byte) (n int, err error)
//@   attr fs-mutating=1
