package vcext

import (
	"bytes"
	"context"
	"encoding/json"
	"io"
	"net/http"
	"net/url"

	"github.com/gorilla/mux"
	"github.com/jhillyerd/enmime/v2"
)

var _ json.Decoder
var _ bytes.Buffer
var _ context.Context
var _ url.URL
var _ io.Reader
var _ http.Request
var _ = mux.Vars
var _ enmime.Envelope

// HTTP responses: ghost_status(w) is the status code written by http.NotFound / http.Error /
// WriteHeader (0 = none yet, i.e. an implicit 200 on the first Write); ghost_nbody(w) counts body writes.
func ghost_status(w http.ResponseWriter) int { panic("ghost") }
func ghost_nbody(w http.ResponseWriter) int  { panic("ghost") }

// ghost_rendered(w): the value most recently JSON-encoded to w; ghost_jencw(e): the writer of an encoder.
func ghost_rendered(w io.Writer) any         { panic("ghost") }
func ghost_jencw(e *json.Encoder) io.Writer  { panic("ghost") }

//@ ext net/http.NotFound(w http.ResponseWriter, r *http.Request)
//@   modifies ghost_status(w), ghost_nbody(w)
//@   ensures ghost_status(w) == 404
//@ ext net/http.Error(w http.ResponseWriter, error string, code int)
//@   modifies ghost_status(w), ghost_nbody(w)
//@   ensures ghost_status(w) == code
//@ iface net/http.ResponseWriter.Header(self http.ResponseWriter) (h http.Header)
//@ iface net/http.ResponseWriter.Write(self http.ResponseWriter, b []byte) (n int, err error)
//@   modifies ghost_nbody(self), ghost_wcontent(self)
//@   ensures ghost_nbody(self) == old(ghost_nbody(self)) + 1
//@   ensures err == nil ==> ghost_wcontent(self) == vcTokCat(old(ghost_wcontent(self)), vcTokBytes(b))
//@ iface net/http.ResponseWriter.WriteHeader(self http.ResponseWriter, statusCode int)
//@   modifies ghost_status(self)
//@   ensures ghost_status(self) == statusCode
//@ ext (net/http.Header).Set(h http.Header, key string, value string)

// JSON encoding / decoding: content not modelled; the encoder writes one body to its writer.
//@ ext encoding/json.NewEncoder(w io.Writer) (e *json.Encoder)
//@   ensures e != nil && vcFresh(e) && ghost_jencw(e) == w
//@ ext (*encoding/json.Encoder).Encode(e *json.Encoder, v any) (err error)
//@   modifies ghost_rendered(ghost_jencw(e))
//@   ensures ghost_rendered(ghost_jencw(e)) == v
//@ ext encoding/json.NewDecoder(r io.Reader) (d *json.Decoder)
//@   ensures d != nil && vcFresh(d)
//@ ext (*encoding/json.Decoder).Decode(d *json.Decoder, v any) (err error)
//@   attr havoc-pointee=1

// io.Copy streams src to dst: on success dst has received, after what it had, everything src yields.
//@ ext io.Copy(dst io.Writer, src io.Reader) (written int64, err error)
//@   modifies ghost_wcontent(dst), ghost_rcontent(src)
//@   ensures err == nil ==> ghost_wcontent(dst) == vcTokCat(old(ghost_wcontent(dst)), old(ghost_rcontent(src)))

//@ ext github.com/gorilla/mux.Vars(r *http.Request) (m map[string]string)

// enmime envelope parsing: on success the envelope and its root part exist.
//@ ext github.com/jhillyerd/enmime/v2.ReadEnvelope(r io.Reader) (e *enmime.Envelope, err error)
//@   ensures err == nil ==> e != nil && e.Root != nil && vcFresh(e)
//@   ensures err != nil ==> e == nil

//@ ext crypto/md5.Sum(data []byte) (r [16]byte)
//@ ext encoding/hex.EncodeToString(src []byte) (r string)

// HTTP client side: a request remembers (ghost) its method and whether it has a body.
func ghost_reqMethod(r *http.Request) string { panic("ghost") }
func ghost_reqURL(r *http.Request) string    { panic("ghost") }
func ghost_reqHasBody(r *http.Request) bool  { panic("ghost") }

//@ ext net/http.NewRequestWithContext(ctx context.Context, method string, url string, body io.Reader) (r *http.Request, err error)
//@   ensures err == nil ==> r != nil && vcFresh(r) && ghost_reqMethod(r) == method && ghost_reqURL(r) == url && ghost_reqHasBody(r) == (body != nil)
//@   ensures err != nil ==> r == nil

//@ ext (*net/url.URL).JoinPath(u *url.URL, elem []string) (r *url.URL)
//@   ensures r != nil
//@ ext (*net/url.URL).String(u *url.URL) (r string)
//@ ext net/url.QueryEscape(s string) (r string)
//@   pure
//@ iface io.ReadCloser.Read(self io.ReadCloser, p []byte) (n int, err error)
//@ ext (*bytes.Buffer).ReadFrom(b *bytes.Buffer, r io.Reader) (n int64, err error)
