package vcext

import (
	"bytes"
	"context"
	"io"
	"net"
	"net/textproto"
	"strconv"
	"sync"
	"time"
)

var _ = strconv.Itoa

// spec_atoi: the integer a decimal string denotes (reference implementation; opaque to the engine).
func spec_atoi(s string) int {
	n, _ := strconv.Atoi(s)
	return n
}

var _ bytes.Buffer
var _ net.Conn
var _ textproto.Conn
var _ time.Time
var _ context.Context
var _ sync.Mutex
var _ io.Reader

// ---------------------------------------------------------------------------------------------
// D8: network I/O is an abstract connection.  The only state a contract exposes is ghost:
// ghost_nlines(c) counts the lines written through a textproto.Conn, ghost_lastline(c) is the last one.

func ghost_nlines(w *textproto.Writer) int      { panic("ghost") }
func ghost_lastline(w *textproto.Writer) string { panic("ghost") }

//@ iface net.Conn.SetWriteDeadline(self net.Conn, t time.Time) (err error)
//@ iface net.Conn.SetReadDeadline(self net.Conn, t time.Time) (err error)
//@ iface net.Conn.SetDeadline(self net.Conn, t time.Time) (err error)
//@ iface net.Conn.Close(self net.Conn) (err error)
//@ iface net.Conn.RemoteAddr(self net.Conn) (r net.Addr)
//@ iface net.Addr.String(self net.Addr) (r string)
//@ iface net.Error.Timeout(self net.Error) (r bool)

// PrintfLine writes one line; on error nothing is known about whether the line went out.
//@ ext (*net/textproto.Writer).PrintfLine(c *textproto.Writer, format string, args []any) (err error)
//@   modifies ghost_nlines(c), ghost_lastline(c)
//@   ensures err == nil ==> ghost_nlines(c) == old(ghost_nlines(c)) + 1
//@   ensures err != nil ==> ghost_nlines(c) == old(ghost_nlines(c)) || ghost_nlines(c) == old(ghost_nlines(c)) + 1
//@   ensures err == nil && format == "%s" && len(args) == 1 ==> ghost_lastline(c) == args[0].(string)

// ReadLine returns one line without its terminator.
//@ ext (*net/textproto.Reader).ReadLine(c *textproto.Reader) (line string, err error)

// ReadDotBytes returns the dot-unstuffed block in a freshly allocated slice.
func ghost_lastBlock(c *textproto.Reader) []byte { panic("ghost") }

//@ ext (*net/textproto.Reader).ReadDotBytes(c *textproto.Reader) (b []byte, err error)
//@   modifies ghost_lastBlock(c)
//@   ensures err == nil && b != nil ==> vcFresh(b)
//@   attr result-ghost=ghost_lastBlock

//@ ext net/textproto.NewConn(conn io.ReadWriteCloser) (c *textproto.Conn)
//@   ensures c != nil && vcFresh(c)

// ---------------------------------------------------------------------------------------------
// bytes.Buffer: ghost_bufbytes(b) is the unread portion as the slice Bytes() returns.

func ghost_bufslice(b *bytes.Buffer) []byte { panic("ghost") }

//@ ext bytes.NewBuffer(buf []byte) (b *bytes.Buffer)
//@   ensures b != nil && vcFresh(b) && vcSameSlice(ghost_bufslice(b), buf)

//@ ext (*bytes.Buffer).Bytes(b *bytes.Buffer) (r []byte)
//@   ensures vcSameSlice(r, ghost_bufslice(b))

//@ ext (*bytes.Buffer).Len(b *bytes.Buffer) (r int)
//@   ensures r == len(ghost_bufslice(b))

// ---------------------------------------------------------------------------------------------
// strconv

//@ ext strconv.ParseInt(s string, base int, bitSize int) (n int64, err error)
//@   ensures err == nil && bitSize == 32 ==> -2147483648 <= n && n <= 2147483647
//@   ensures err == nil && bitSize == 16 ==> -32768 <= n && n <= 32767
//@   ensures err == nil && bitSize == 8 ==> -128 <= n && n <= 127

// Itoa is injective: spec_atoi is its left inverse.
//@ ext strconv.Itoa(i int) (r string)
//@   pure
//@   ensures len(r) >= 1 && spec_atoi(r) == i

//@ func spec_atoi
//@   opaque
//@   pure

// ghost_bufstr(b): everything written to the buffer so far, as String() returns it.
func ghost_bufstr(b *bytes.Buffer) string { panic("ghost") }

//@ ext (*bytes.Buffer).WriteByte(b *bytes.Buffer, c byte) (err error)
//@   modifies ghost_bufstr(b)
//@   ensures err == nil && ghost_bufstr(b) == old(ghost_bufstr(b)) + vcByteStr(c)

//@ ext (*bytes.Buffer).String(b *bytes.Buffer) (r string)
//@   ensures r == ghost_bufstr(b)

//@ ext (*sync.WaitGroup).Add(wg *sync.WaitGroup, delta int)
//@ ext (*sync.WaitGroup).Done(wg *sync.WaitGroup)
//@ ext (*sync.WaitGroup).Wait(wg *sync.WaitGroup)

// time.Time comparisons are pure functions of the two instants.
//@ ext (time.Time).Before(t time.Time, u time.Time) (r bool)
//@   pure
//@ ext (time.Time).After(t time.Time, u time.Time) (r bool)
//@   pure

//@ iface context.Context.Done(self context.Context) (r <-chan struct{})
//@ iface context.Context.Err(self context.Context) (err error)

//@ ext strconv.ParseUint(s string, base int, bitSize int) (n uint64, err error)
//@   ensures err == nil && bitSize == 32 ==> n <= 4294967295
