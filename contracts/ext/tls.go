package vcext

import (
	"crypto/tls"
	"net"
)

var _ tls.Config
var _ net.Conn

// TLS negotiation is out of scope (DESIGN: OUT TLS): only allocation facts are assumed.
//@ ext crypto/tls.Server(conn net.Conn, config *tls.Config) (c *tls.Conn)
//@   ensures c != nil && vcFresh(c)

//@ ext (*crypto/tls.Conn).ConnectionState(c *tls.Conn) (s tls.ConnectionState)

//@ ext (*crypto/tls.Conn).Handshake(c *tls.Conn) (err error)

//@ ext crypto/tls.LoadX509KeyPair(certFile string, keyFile string) (c tls.Certificate, err error)
