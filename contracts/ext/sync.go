package vcext

import (
	"container/list"
	"io"
	"strconv"
	"sync"
)

var _ sync.Mutex
var _ list.List
var _ io.Reader
var _ = strconv.Itoa

// Locks: in sequential verification acquiring and releasing a lock has no effect on the state (the
// lock discipline itself — which fields are touched under which lock — is checked by the C09 pass).
//@ ext (*sync.Mutex).Lock(m *sync.Mutex)
//@ ext (*sync.Mutex).Unlock(m *sync.Mutex)
//@ ext (*sync.RWMutex).Lock(m *sync.RWMutex)
//@ ext (*sync.RWMutex).Unlock(m *sync.RWMutex)
//@ ext (*sync.RWMutex).RLock(m *sync.RWMutex)
//@ ext (*sync.RWMutex).RUnlock(m *sync.RWMutex)

// io.ReadAll: the bytes of the reader, in a fresh slice.
//@ ext io.ReadAll(r io.Reader) (b []byte, err error)
//@   modifies ghost_rcontent(r)
//@   ensures err == nil ==> vcFresh(b) || len(b) == 0
//@   ensures err == nil ==> vcTokBytes(b) == old(ghost_rcontent(r))
