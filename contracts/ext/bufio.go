package vcext

import (
	"bufio"
	"io"
	"net"
	"os"
)

var _ bufio.Scanner
var _ io.Reader
var _ net.Conn
var _ = os.Getpid

// bufio.Scanner (line splitting): only allocation / shape facts are assumed here; the 64 KiB token
// limit (Scan returns false with ErrTooLong) is what makes Err() != nil reachable after a partial scan.
//@ ext bufio.NewScanner(r io.Reader) (s *bufio.Scanner)
//@   ensures s != nil && vcFresh(s)
//@ ext (*bufio.Scanner).Scan(s *bufio.Scanner) (ok bool)
//@ ext (*bufio.Scanner).Text(s *bufio.Scanner) (r string)
//@ ext (*bufio.Scanner).Err(s *bufio.Scanner) (err error)
//@ ext (*bufio.Scanner).Buffer(s *bufio.Scanner, buf []byte, max int)

//@ ext bufio.NewReader(rd io.Reader) (r *bufio.Reader)
//@   ensures r != nil && vcFresh(r)
//@ ext (*bufio.Reader).ReadString(b *bufio.Reader, delim byte) (line string, err error)

//@ iface io.ReadCloser.Close(self io.ReadCloser) (err error)
//@ iface io.Closer.Close(self io.Closer) (err error)

//@ ext net.SplitHostPort(hostport string) (host string, port string, err error)
//@ ext os.Getpid() (r int)
