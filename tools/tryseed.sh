#!/bin/bash
# usage: tryseed.sh <patch.diff> <prop> [<prop>...] — applies a seeded change to a scratch copy of /repo and runs the checks
patch=$(readlink -f $1); shift
T=$(mktemp -d /tmp/tryseed.XXXXXX)
rsync -a --exclude .git /repo/ $T/repo/
(cd $T/repo && patch -s -p1 < $patch) || { echo "patch failed"; rm -rf $T; exit 2; }
for p in "$@"; do
  /verif/bin/govc check -prop $p -tier quick -repo $T/repo -work $T/work -no-evidence 2>&1 | grep -E "FAILED|UNDECIDED|VIOLATION|^property" | cut -c1-260
done
rm -rf $T
