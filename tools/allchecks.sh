#!/bin/bash
# runs every claimed check (quick tier) a few at a time; prints one summary line per check plus failures
cd "$(dirname "$0")/.."
ids=$(jq -r '.checks[].property_id' MANIFEST.json)
echo $ids | tr ' ' '\n' | xargs -P 3 -I{} sh -c './check {} quick > /tmp/allchecks.{}.log 2>&1; grep -E "FAILED|UNDEC|VIOL|^property" /tmp/allchecks.{}.log | cut -c1-220'
