#!/bin/bash
# regenerates every pkg/**/zz_vc_verif.go helper file in /repo (and the ext helper) from govc's template
for f in $(find /repo/pkg -name zz_vc_verif.go); do
  pkg=$(grep -m1 '^package ' $f | awk '{print $2}')
  /verif/bin/govc helpers $pkg > $f
  gofmt -w $f
done
/verif/bin/govc helpers vcext notag > /verif/contracts/ext/zz_vc.go; gofmt -w /verif/contracts/ext/zz_vc.go
