#!/usr/bin/env python3
"""usage: core.py <vc.smt2> [timeout] — prints an unsat core of the assertions of a VC file (debug aid)."""
import sys,re,subprocess
src=open(sys.argv[1]).read().split('\n')
to=sys.argv[2] if len(sys.argv)>2 else '60'
out=['(set-option :produce-unsat-cores true)']
n=0; names={}
for l in src:
    if l.startswith('(assert ') and not l.startswith('(assert (forall ((s ') and not l.startswith('(assert (forall ((a Str') and not l.startswith('(assert (forall ((c Int'):
        n+=1; nm='a%d'%n; names[nm]=l
        out.append('(assert (! %s :named %s))'%(l[8:-1],nm))
    else: out.append(l)
out.append('(get-unsat-core)')
open('/tmp/core.smt2','w').write('\n'.join(out))
r=subprocess.run(['z3-new','-T:'+to,'/tmp/core.smt2'],capture_output=True,text=True).stdout
print(r[:200])
lines=[l for l in r.split('\n') if l.startswith('(a')]
for c in re.findall(r'a\d+',' '.join(lines)): print(c, names[c][:600])
