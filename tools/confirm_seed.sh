#!/bin/bash
# usage: confirm_seed.sh <seed-dir> <pkgdir-of-demo>   (seed-dir has patch.diff and demo_test.go.txt)
# Confirms independently: demo passes on the unchanged tree; with the change the suite is green and the demo fails.
export GOFLAGS=-mod=mod GOPROXY=off GOSUMDB=off GOTOOLCHAIN=local
RACEFLAG=${RACE:+-race}   # RACE=1: run the demonstration under the race detector
sd=$(readlink -f $1); pkg=$2
T=$(mktemp -d /tmp/confirm.XXXXXX)
rsync -a --exclude .git /repo/ $T/repo/
cd $T/repo
cp $sd/demo_test.go.txt $pkg/zz_seed_demo_test.go
echo "== demo on unchanged tree (expect ok)"; go test $RACEFLAG -vet=off -count=1 ./$pkg 2>&1 | tail -2
patch -s -p1 < $sd/patch.diff || { echo PATCH-FAILED; rm -rf $T; exit 2; }
mv $pkg/zz_seed_demo_test.go $T/demo.go
echo "== full suite with the change (expect all ok)"; go build ./... && go test -vet=off -count=1 ./... 2>&1 | grep -v "no test files" | grep -vc "^ok" 
cp $T/demo.go $pkg/zz_seed_demo_test.go
echo "== demo with the change (expect FAIL)"; go test $RACEFLAG -vet=off -count=1 ./$pkg 2>&1 | grep -E "^(--- FAIL|FAIL|ok|WARNING: DATA RACE)" | head -5
cd /; rm -rf $T
