#!/bin/bash
# usage: intake_seed.sh <src under /tmp/seed> <dest name under seeded/> <pkgdir> <prop>...
# copies a sub-agent's deliverables, confirms them independently, then tries the named checks
src=$1; dst=$2; pkg=$3; shift 3
d=/verif/seeded/$dst; mkdir -p $d
cp /tmp/seed/$src/patch.diff $d/patch.diff
cp /tmp/seed/$src/demo_test.go.txt $d/demo_test.go.txt
cp /tmp/seed/$src/meta.txt $d/agent_meta.txt
echo $pkg > $d/demo_pkg.txt
echo "=== $dst $(date -u +%FT%TZ)" >> /verif/seeded/confirm.log
/verif/tools/confirm_seed.sh $d $pkg 2>&1 | tee -a /verif/seeded/confirm.log
echo "--- checks"
/verif/tools/tryseed.sh $d/patch.diff "$@" 2>&1 | tee $d/check_output.txt
