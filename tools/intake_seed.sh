#!/bin/bash
# usage: intake_seed.sh <ID> <pkgdir> <prop>...  — copies a sub-agent's deliverables from /tmp/seed/<ID>, confirms, tries the checks
id=$1; pkg=$2; shift 2
d=/verif/seeded/$id-agent1; mkdir -p $d
cp /tmp/seed/$id/patch.diff $d/patch.diff
cp /tmp/seed/$id/demo_test.go.txt $d/demo_test.go.txt
cp /tmp/seed/$id/meta.txt $d/agent_meta.txt
echo $pkg > $d/demo_pkg.txt
echo "=== $id $(date -u +%FT%TZ)" >> /verif/seeded/confirm.log
/verif/tools/confirm_seed.sh $d $pkg 2>&1 | tee -a /verif/seeded/confirm.log
echo "--- checks"
/verif/tools/tryseed.sh $d/patch.diff "$@" 2>&1 | tee $d/check_output.txt
