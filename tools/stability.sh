#!/bin/bash
# usage: stability.sh <prop> [seeds=5] — runs the quick check with several solver seeds; prints obligations that
# ever failed or took more than 5 s (the claimed obligations should stay far below the 30 s quick time-out).
cd "$(dirname "$0")/.."
prop=$1; n=${2:-5}
for s in $(seq 1 $n); do
  VERIF_SEED=$s bin/govc check -prop $prop -tier quick -v -no-evidence -work work/stab-$prop 2>&1 | awk -v s=$s '($1=="discharged" && $4+0 > 5.0) || $1=="undecided" || $1=="refuted" {print "seed", s, $0} $1=="property" {print "seed", s, $0}'
done
rm -rf work/stab-$prop
