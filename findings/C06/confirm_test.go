package smtp

// Replays, against the real code, the input on which dataHandler/post.sizeLimit (C06) fails:
// a DATA block larger than MaxMessageBytes (5000 in the test server) with no SIZE parameter.
import (
	"net/textproto"
	"strings"
	"testing"

	"github.com/inbucket/inbucket/v3/pkg/extension"
	"github.com/inbucket/inbucket/v3/pkg/test"
)

func TestVerifC06OversizeData(t *testing.T) {
	ds := test.NewStore()
	server := setupSMTPServer(ds, extension.NewHost())
	pipe := setupSMTPSession(t, server)
	c := textproto.NewConn(pipe)
	if _, _, err := c.ReadCodeLine(220); err != nil {
		t.Fatal(err)
	}
	for _, step := range []struct {
		cmd  string
		code int
	}{{"HELO localhost", 250}, {"MAIL FROM:<john@gmail.com>", 250}, {"RCPT TO:<u1@gmail.com>", 250}, {"DATA", 354}} {
		if err := c.PrintfLine("%s", step.cmd); err != nil {
			t.Fatal(err)
		}
		if _, _, err := c.ReadCodeLine(step.code); err != nil {
			t.Fatalf("%s: %v", step.cmd, err)
		}
	}
	body := "Subject: big\r\n\r\n" + strings.Repeat(strings.Repeat("x", 98)+"\r\n", 60) // 6000+ bytes
	w := c.DotWriter()
	if _, err := w.Write([]byte(body)); err != nil {
		t.Fatal(err)
	}
	if err := w.Close(); err != nil {
		t.Fatal(err)
	}
	code, msg, err := c.ReadCodeLine(0)
	if err != nil && code == 0 {
		t.Fatal(err)
	}
	msgs, _ := ds.GetMessages("u1@gmail.com")
	if code/100 == 2 || len(msgs) > 0 {
		t.Errorf("oversized message (%d bytes, limit %d) answered %d %q and %d message(s) stored", len(body), server.config.MaxMessageBytes, code, msg, len(msgs))
	}
	// the session must remain usable
	if err := c.PrintfLine("NOOP"); err != nil {
		t.Fatal(err)
	}
	if _, _, err := c.ReadCodeLine(250); err != nil {
		t.Errorf("session not usable after oversize refusal: %v", err)
	}
}
