package policy

// Replay of the C04 finding "name ending with a period" against the real code.
// Run with: findings/replay.sh pkg/policy findings/C04/confirm_trailing_period_test.go -run TestC04TrailingPeriod

import (
	"testing"

	"github.com/inbucket/inbucket/v3/pkg/config"
)

func TestC04TrailingPeriodNameIsNotAddressable(t *testing.T) {
	for _, mode := range []struct {
		name string
		set  func(c *config.Root)
	}{
		{"local", func(c *config.Root) { c.MailboxNaming = config.LocalNaming }},
		{"full", func(c *config.Root) { c.MailboxNaming = config.FullNaming }},
	} {
		a := &Addressing{Config: &config.Root{}}
		mode.set(a.Config)
		addr := "aa.+tag@x.com"
		if _, err := a.NewRecipient(addr); err != nil {
			continue // refused at RCPT: nothing is ever stored under a name derived from it
		}
		name, err := a.ExtractMailbox(addr)
		if err != nil {
			t.Errorf("%s naming: RCPT accepts %q but it has no mailbox name: %v", mode.name, addr, err)
			continue
		}
		if again, err := a.ExtractMailbox(name); err != nil || again != name {
			t.Errorf("%s naming: mail for %q is stored in mailbox %q, which cannot be asked for by its own name: ExtractMailbox(%q) = %q, %v", mode.name, addr, name, name, again, err)
		}
	}
}
