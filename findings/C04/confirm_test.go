package policy

// Replays, against the real code, the input classes on which the C04 obligations
// ExtractMailbox/post.nonEmpty and post.canonicalCaseDomainPart fail.
import (
	"testing"

	"github.com/inbucket/inbucket/v3/pkg/config"
)

func TestVerifC04EmptyName(t *testing.T) {
	for _, mode := range []int{1, 2} { // LocalNaming, FullNaming
		a := &Addressing{Config: &config.Root{}}
		if mode == 1 {
			a.Config.MailboxNaming = config.LocalNaming
		} else {
			a.Config.MailboxNaming = config.FullNaming
		}
		m, err := a.ExtractMailbox("+ext@x.com")
		if err == nil && (m == "" || m[0] == '@') {
			t.Errorf("mode %d: ExtractMailbox(\"+ext@x.com\") = %q, nil: empty mailbox name accepted", mode, m)
		}
	}
}

func TestVerifC04DomainCase(t *testing.T) {
	a := &Addressing{Config: &config.Root{MailboxNaming: config.FullNaming}}
	m1, e1 := a.ExtractMailbox("user@Example.COM")
	m2, e2 := a.ExtractMailbox("user@example.com")
	if e1 == nil && e2 == nil && m1 != m2 {
		t.Errorf("full naming: %q vs %q: name depends on letter case", m1, m2)
	}
	d := &Addressing{Config: &config.Root{MailboxNaming: config.DomainNaming}}
	m3, e3 := d.ExtractMailbox("user@Example.COM")
	if e3 == nil {
		m4, e4 := d.ExtractMailbox(m3)
		if e4 != nil || m4 != m3 {
			t.Errorf("domain naming: name %q is not a fixed point (lookup by name gives %q, %v)", m3, m4, e4)
		}
	}
}
