package file

// Replays the request on which file.(*Store).MarkSeen/post.notExist fails: marking a message that
// does not exist is reported as success (and the index is rewritten).
import (
	"strings"
	"testing"

	"github.com/inbucket/inbucket/v3/pkg/config"
	"github.com/inbucket/inbucket/v3/pkg/extension"
	"github.com/inbucket/inbucket/v3/pkg/message"
	"github.com/inbucket/inbucket/v3/pkg/storage"
)

func TestVerifC07FileMarkSeenMissing(t *testing.T) {
	s, err := New(config.Storage{Params: map[string]string{"path": t.TempDir()}}, extension.NewHost())
	if err != nil {
		t.Fatal(err)
	}
	d := &message.Delivery{Reader: strings.NewReader("Subject: x\r\n\r\nbody\r\n")}
	d.Meta.Mailbox = "box"
	if _, err := s.AddMessage(d); err != nil {
		t.Fatal(err)
	}
	if err := s.MarkSeen("box", "no-such-id"); err != storage.ErrNotExist {
		t.Errorf("MarkSeen(missing id) = %v, want ErrNotExist", err)
	}
	if err := s.MarkSeen("emptybox", "no-such-id"); err != storage.ErrNotExist {
		t.Errorf("MarkSeen(missing mailbox) = %v, want ErrNotExist", err)
	}
}
