package mem

// Replays the history on which mem.(*Store).AddMessage/post.evictionEvents (C16) and the C08 accounting
// obligation fail: messages evicted by the per-mailbox cap produce no deleted event and are never
// reported to the size enforcer.
import (
	"strings"
	"sync"
	"testing"
	"time"

	"github.com/inbucket/inbucket/v3/pkg/config"
	"github.com/inbucket/inbucket/v3/pkg/extension"
	"github.com/inbucket/inbucket/v3/pkg/extension/event"
	"github.com/inbucket/inbucket/v3/pkg/message"
)

func deliver(t *testing.T, s interface {
	AddMessage(m interface{}) (string, error)
}, box string, size int) {
}

func TestVerifC16CapEvictionEmitsNoDeletedEvent(t *testing.T) {
	host := extension.NewHost()
	var mu sync.Mutex
	deleted := 0
	host.Events.AfterMessageDeleted.AddListener("count", func(m event.MessageMetadata) {
		mu.Lock()
		deleted++
		mu.Unlock()
	})
	s, err := New(config.Storage{MailboxMsgCap: 2}, host)
	if err != nil {
		t.Fatal(err)
	}
	for i := 0; i < 5; i++ {
		d := &message.Delivery{Reader: strings.NewReader("Subject: x\r\n\r\nbody\r\n")}
		d.Meta.Mailbox = "box"
		if _, err := s.AddMessage(d); err != nil {
			t.Fatal(err)
		}
	}
	ms, _ := s.GetMessages("box")
	time.Sleep(200 * time.Millisecond)
	mu.Lock()
	defer mu.Unlock()
	if len(ms) != 2 || deleted != 3 {
		t.Errorf("cap 2, 5 deliveries: %d messages listed, %d deleted events (want 2 and 3)", len(ms), deleted)
	}
}

func TestVerifC08CapAndSizeLimitDrift(t *testing.T) {
	s, err := New(config.Storage{MailboxMsgCap: 2, Params: map[string]string{"maxkb": "10"}}, extension.NewHost())
	if err != nil {
		t.Fatal(err)
	}
	body := strings.Repeat("x", 1024)
	for i := 0; i < 40; i++ {
		d := &message.Delivery{Reader: strings.NewReader(body)}
		d.Meta.Mailbox = "box"
		if _, err := s.AddMessage(d); err != nil {
			t.Fatal(err)
		}
	}
	ms, _ := s.GetMessages("box")
	if len(ms) != 2 {
		t.Errorf("cap 2, limit 10 KiB, forty 1 KiB deliveries: mailbox lists %d messages, want 2 (2 KiB stored, far below the limit)", len(ms))
	}
}
