package mem

// Replays, against the real memory store, the requests on which the C07 obligations
// GetMessage/post.xor, GetMessage/post.notExist, MarkSeen/post.notExist and RemoveMessage/post.notExist fail.
import (
	"strings"
	"testing"

	"github.com/inbucket/inbucket/v3/pkg/config"
	"github.com/inbucket/inbucket/v3/pkg/extension"
	"github.com/inbucket/inbucket/v3/pkg/message"
	"github.com/inbucket/inbucket/v3/pkg/storage"
)

func TestVerifC07MemMissingMessage(t *testing.T) {
	s, err := New(config.Storage{}, extension.NewHost())
	if err != nil {
		t.Fatal(err)
	}
	d := &message.Delivery{Reader: strings.NewReader("Subject: x\r\n\r\nbody\r\n")}
	d.Meta.Mailbox = "box"
	if _, err := s.AddMessage(d); err != nil {
		t.Fatal(err)
	}
	if m, err := s.GetMessage("box", "999"); err != storage.ErrNotExist || m != nil {
		t.Errorf("GetMessage(missing id) = (%v, %v), want (nil, ErrNotExist)", m, err)
	}
	if m, err := s.GetMessage("emptybox", "latest"); err != storage.ErrNotExist || m != nil {
		t.Errorf("GetMessage(empty mailbox, latest) = (%v, %v), want (nil, ErrNotExist)", m, err)
	}
	if err := s.MarkSeen("box", "999"); err != storage.ErrNotExist {
		t.Errorf("MarkSeen(missing id) = %v, want ErrNotExist", err)
	}
	if err := s.RemoveMessage("box", "999"); err != storage.ErrNotExist {
		t.Errorf("RemoveMessage(missing id) = %v, want ErrNotExist", err)
	}
}
