package rest

// Replays of the C15 findings against the real hub and the real WebSocket listeners (no network
// peer: the listeners are created with the package's own constructors and driven directly).
// Run with: findings/replay.sh pkg/rest findings/C15/confirm_test.go -run TestC15

import (
	"context"
	"testing"
	"time"

	"github.com/inbucket/inbucket/v3/pkg/extension"
	"github.com/inbucket/inbucket/v3/pkg/extension/event"
	"github.com/inbucket/inbucket/v3/pkg/msghub"
)

func c15sync(t *testing.T, hub *msghub.Hub, what string) bool {
	t.Helper()
	done := make(chan struct{})
	go func() { hub.Sync(); close(done) }()
	select {
	case <-done:
		return true
	case <-time.After(3 * time.Second):
		t.Errorf("%s: hub.Sync did not return within 3 s — the hub is blocked", what)
		return false
	}
}

// A listener that disconnects while a broadcast is queued makes the hub panic inside that broadcast
// (send on closed channel); runOp recovers, but the rest of the broadcast is abandoned: other
// listeners miss the event.
func TestC15DisconnectDuringBroadcastLosesEventForOthers(t *testing.T) {
	missed := 0
	const rounds = 40
	for i := 0; i < rounds; i++ {
		hub := msghub.New(5, extension.NewHost())
		l1 := newMsgListenerV2(hub, "")
		l2 := newMsgListenerV2(hub, "")
		hub.Dispatch(event.MessageMetadata{Mailbox: "box", ID: "1"}) // queued: the hub is not running yet
		l1.Close()                                                   // client 1 goes away: RemoveListener queued behind the dispatch, channel closed now
		ctx, cancel := context.WithCancel(context.Background())
		go hub.Start(ctx)
		if !c15sync(t, hub, "after disconnect") {
			cancel()
			return
		}
		if len(l2.c) != 1 {
			missed++
		}
		cancel()
	}
	if missed > 0 {
		t.Errorf("in %d of %d rounds the well-behaved listener missed the event that was being broadcast while another listener disconnected", missed, rounds)
	}
}

// A listener whose client does not read: after 100 buffered events Receive blocks in the hub
// goroutine, and every other listener stops receiving.
func TestC15SlowListenerBlocksHub(t *testing.T) {
	hub := msghub.New(5, extension.NewHost())
	ctx, cancel := context.WithCancel(context.Background())
	defer cancel()
	go hub.Start(ctx)
	slow := newMsgListenerV2(hub, "")
	_ = slow // never drained
	for i := 0; i < 101; i++ {
		hub.Dispatch(event.MessageMetadata{Mailbox: "box", ID: "x"})
	}
	c15sync(t, hub, "after 101 events to a listener that does not read")
}

// Close() decides "already closed" by receiving from the listener's own data channel: with an event
// still queued it swallows that event, does not deregister and does not close — the listener stays
// in the hub for ever (and, once its buffer is full, blocks the hub as above).
func TestC15CloseWithQueuedEventLeaksListener(t *testing.T) {
	hub := msghub.New(5, extension.NewHost())
	ctx, cancel := context.WithCancel(context.Background())
	defer cancel()
	go hub.Start(ctx)
	l := newMsgListenerV2(hub, "")
	hub.Dispatch(event.MessageMetadata{Mailbox: "box", ID: "1"})
	if !c15sync(t, hub, "setup") {
		return
	}
	if len(l.c) != 1 {
		t.Fatalf("setup: want 1 queued event, got %d", len(l.c))
	}
	l.Close() // the client disconnected with one event still queued
	before := len(l.c)
	hub.Dispatch(event.MessageMetadata{Mailbox: "box", ID: "2"})
	if !c15sync(t, hub, "after close") {
		return
	}
	if n := len(l.c) - before; n != 0 {
		t.Errorf("a closed listener is still registered: it received %d more event(s) after Close()", n)
	}
}

// With a history length of 0 (INBUCKET_WEB_MONITORHISTORY=0) the hub has no ring, and Dispatch /
// Delete skip the relay altogether: attached monitors never see any event.
func TestC15NoRelayWithoutHistory(t *testing.T) {
	hub := msghub.New(0, extension.NewHost())
	ctx, cancel := context.WithCancel(context.Background())
	defer cancel()
	go hub.Start(ctx)
	l := newMsgListenerV2(hub, "")
	if !c15sync(t, hub, "setup") {
		return
	}
	hub.Dispatch(event.MessageMetadata{Mailbox: "box", ID: "1"})
	hub.Delete("box", "1")
	if !c15sync(t, hub, "after dispatch") {
		return
	}
	if n := len(l.c); n != 2 {
		t.Errorf("history length 0: listener received %d of the 2 events (stored, deleted)", n)
	}
}
