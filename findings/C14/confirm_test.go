package rest

// Replays, against the real router, handlers, manager and memory store, the operation on which the
// C14 obligation client.(*Client).MarkSeenWithContext/post.body fails: the bundled Go client sends
// PATCH with no body, while MailboxMarkSeenV1 decodes a JSON body.
import (
	"net/http/httptest"
	"strings"
	"testing"

	"github.com/gorilla/mux"
	"github.com/inbucket/inbucket/v3/pkg/config"
	"github.com/inbucket/inbucket/v3/pkg/extension"
	"github.com/inbucket/inbucket/v3/pkg/message"
	"github.com/inbucket/inbucket/v3/pkg/policy"
	"github.com/inbucket/inbucket/v3/pkg/rest/client"
	"github.com/inbucket/inbucket/v3/pkg/server/web"
	"github.com/inbucket/inbucket/v3/pkg/storage/mem"
)

func TestVerifC14ClientMarkSeen(t *testing.T) {
	conf := &config.Root{MailboxNaming: config.LocalNaming}
	extHost := extension.NewHost()
	store, err := mem.New(config.Storage{}, extHost)
	if err != nil {
		t.Fatal(err)
	}
	mgr := &message.StoreManager{AddrPolicy: &policy.Addressing{Config: conf}, Store: store, ExtHost: extHost}
	id, err := store.AddMessage(&message.Delivery{Meta: message.Delivery{}.Meta, Reader: strings.NewReader("Subject: x\r\n\r\nbody\r\n")})
	_ = id
	if err != nil {
		t.Fatal(err)
	}
	web.NewServer(conf, mgr, nil)
	r := mux.NewRouter()
	SetupRoutes(r.PathPrefix("/api/").Subrouter())
	srv := httptest.NewServer(r)
	defer srv.Close()

	c, err := client.New(srv.URL)
	if err != nil {
		t.Fatal(err)
	}
	// the message was stored in the mailbox named "" -> use a real name instead
	d := &message.Delivery{Reader: strings.NewReader("Subject: y\r\n\r\nbody\r\n")}
	d.Meta.Mailbox = "box1"
	id2, err := store.AddMessage(d)
	if err != nil {
		t.Fatal(err)
	}
	if err := c.MarkSeen("box1", id2); err != nil {
		t.Errorf("client.MarkSeen(box1, %s) against the real server: %v", id2, err)
	}
	m, _ := store.GetMessage("box1", id2)
	if m == nil || !m.Seen() {
		t.Errorf("message not marked seen after client.MarkSeen")
	}
}
