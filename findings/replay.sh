#!/bin/bash
# usage: replay.sh <pkgdir relative to /repo> <test file> [-run regex] — runs an in-package test against
# /repo's working tree through an overlay (nothing is written into the repository).
export GOFLAGS=-mod=mod GOPROXY=off GOSUMDB=off GOTOOLCHAIN=local
repo=${REPO:-/repo}
pkg=$1; tf=$(readlink -f $2); shift 2
T=$(mktemp -d /tmp/replay.XXXXXX)
echo "{\"Replace\": {\"$repo/$pkg/zz_verif_replay_test.go\": \"$tf\"}}" > $T/ov.json
(cd $repo && go test -overlay $T/ov.json -vet=off -count=1 -timeout 120s "$@" ./$pkg 2>&1 | head -60)
rc=${PIPESTATUS[0]}
rm -rf $T
exit $rc
