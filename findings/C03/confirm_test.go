package smtp

// Replays, against the real code, the history on which startSession/inv.preserve (C03) fails:
// RSET before any greeting moves the session from GREET to READY, after which MAIL is accepted.
import (
	"net/textproto"
	"testing"

	"github.com/inbucket/inbucket/v3/pkg/extension"
	"github.com/inbucket/inbucket/v3/pkg/test"
)

func TestVerifC03MailWithoutGreeting(t *testing.T) {
	ds := test.NewStore()
	server := setupSMTPServer(ds, extension.NewHost())
	pipe := setupSMTPSession(t, server)
	c := textproto.NewConn(pipe)
	if _, _, err := c.ReadCodeLine(220); err != nil {
		t.Fatal(err)
	}
	if err := c.PrintfLine("RSET"); err != nil {
		t.Fatal(err)
	}
	if _, _, err := c.ReadCodeLine(250); err != nil {
		t.Fatal(err)
	}
	if err := c.PrintfLine("MAIL FROM:<a@b.com>"); err != nil {
		t.Fatal(err)
	}
	code, msg, _ := c.ReadCodeLine(0)
	if code/100 == 2 {
		t.Errorf("MAIL accepted without HELO/EHLO (after RSET in GREET state): %d %s", code, msg)
	}
}
