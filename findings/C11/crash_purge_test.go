package file

// Real crash replay for C11 / R2 (every message the index lists has its content): driven by
// crash_purge.sh, which runs this test binary three times against one mail directory:
//   VERIF_PHASE=fill   deliver three messages to one mailbox;
//   VERIF_PHASE=purge  purge the mailbox — the script has strace kill the process (SIGKILL) on entry to its
//                      n-th unlinkat call, i.e. in the middle of os.RemoveAll;
//   VERIF_PHASE=check  a fresh store on the directory as the crash left it: the mailbox must list without
//                      error and every listed message must have its content.
import (
	"os"
	"strings"
	"testing"

	"github.com/inbucket/inbucket/v3/pkg/config"
	"github.com/inbucket/inbucket/v3/pkg/extension"
	"github.com/inbucket/inbucket/v3/pkg/message"
)

func TestVerifC11CrashDuringPurge(t *testing.T) {
	dir := os.Getenv("VERIF_DIR")
	if dir == "" {
		t.Skip("driven by crash_purge.sh")
	}
	s, err := New(config.Storage{Params: map[string]string{"path": dir}}, extension.NewHost())
	if err != nil {
		t.Fatal(err)
	}
	switch os.Getenv("VERIF_PHASE") {
	case "fill":
		for i := 0; i < 3; i++ {
			d := &message.Delivery{Reader: strings.NewReader("Subject: s\r\n\r\nbody\r\n")}
			d.Meta.Mailbox = "box"
			if _, err := s.AddMessage(d); err != nil {
				t.Fatal(err)
			}
		}
	case "purge":
		_ = s.PurgeMessages("box")
	case "removelast":
		ms, _ := s.GetMessages("box")
		for _, m := range ms {
			_ = s.RemoveMessage("box", m.ID())
		}
	default:
		ms, err := s.GetMessages("box")
		if err != nil {
			t.Fatalf("after the crash the mailbox cannot be listed: %v", err)
		}
		for _, m := range ms {
			r, err := m.Source()
			if err != nil {
				t.Errorf("after the crash the mailbox lists message %s, whose content is gone: %v", m.ID(), err)
				continue
			}
			_ = r.Close()
		}
		t.Logf("listed %d message(s), all with content", len(ms))
	}
}
