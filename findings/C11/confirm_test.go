package file

// Replays the crash point at which the C11 obligation file.(*mbox).writeIndex/crash.indexReadable@os.Create
// failed before the fix e489bdb (on the fixed tree this crash state can no longer arise: os.Create is
// applied to index.gob.tmp): the state of the mailbox directory right after os.Create(indexPath) has returned (the live
// index truncated to zero bytes, the new one not yet written), opened by a fresh store.
import (
	"os"
	"path/filepath"
	"strings"
	"testing"

	"github.com/inbucket/inbucket/v3/pkg/config"
	"github.com/inbucket/inbucket/v3/pkg/extension"
	"github.com/inbucket/inbucket/v3/pkg/message"
)

func TestVerifC11CrashAfterIndexCreate(t *testing.T) {
	dir := t.TempDir()
	cfg := config.Storage{Params: map[string]string{"path": dir}}
	s, err := New(cfg, extension.NewHost())
	if err != nil {
		t.Fatal(err)
	}
	d := &message.Delivery{Reader: strings.NewReader("Subject: x\r\n\r\nbody\r\n")}
	d.Meta.Mailbox = "box"
	if _, err := s.AddMessage(d); err != nil {
		t.Fatal(err)
	}
	// find the index file
	var index string
	_ = filepath.Walk(dir, func(p string, fi os.FileInfo, err error) error {
		if err == nil && fi.Name() == indexFileName {
			index = p
		}
		return nil
	})
	if index == "" {
		t.Fatal("no index written")
	}
	// the crash state: exactly what os.Create(indexPath) leaves behind at the start of the next writeIndex
	f, err := os.Create(index)
	if err != nil {
		t.Fatal(err)
	}
	_ = f.Close()
	// restart
	s2, err := New(cfg, extension.NewHost())
	if err != nil {
		t.Fatal(err)
	}
	ms, err := s2.GetMessages("box")
	if err != nil || len(ms) != 1 {
		t.Errorf("after a crash right after os.Create(index): GetMessages = %d messages, err = %v (want the 1 message delivered before, no error)", len(ms), err)
	}
}
