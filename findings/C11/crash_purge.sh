#!/bin/bash
# usage: crash_purge.sh   (REPO=/path to use another tree)
# Kills a real purge of a file-store mailbox at every file deletion it performs (strace fault injection:
# SIGKILL on entry to the n-th unlinkat) and restarts a store on what is left.  Exit 1 if any crash point
# leaves a mailbox that lists a message without content.  Needs ptrace (strace); scratch under /tmp only.
export GOFLAGS=-mod=mod GOPROXY=off GOSUMDB=off GOTOOLCHAIN=local
repo=${REPO:-/repo}
here=$(dirname "$(readlink -f "$0")")
T=$(mktemp -d /tmp/crashpurge.XXXXXX)
trap 'rm -rf $T' EXIT
echo "{\"Replace\": {\"$repo/pkg/storage/file/zz_verif_replay_test.go\": \"$here/crash_purge_test.go\"}}" > $T/ov.json
(cd $repo && go test -overlay $T/ov.json -vet=off -c -o $T/file.test ./pkg/storage/file) || exit 2
run() { VERIF_DIR=$T/$1 VERIF_PHASE=$2 $T/file.test -test.run TestVerifC11CrashDuringPurge -test.v 2>&1; }
# a mailbox whose directory lists a message file before the index (the order RemoveAll deletes in is the
# directory order, which depends on the file names: ids are timestamps, so try a few seconds)
for try in 1 2 3 4 5 6 7 8 9 10; do
  rm -rf $T/d; mkdir $T/d; run d fill > /dev/null
  first=$(ls -U $T/d/mail/*/*/*/ | head -1)
  [ "$first" != index.gob ] && break
  sleep 1
done
echo "directory order: $(ls -U $T/d/mail/*/*/*/ | tr '\n' ' ')"
rc=0
exec 3>&2 2>/dev/null   # (bash reports every killed child on stderr)
for phase in purge; do
 for n in 1 2 3 4 5 6 7 8 9; do
  rm -rf $T/dn; cp -a $T/d $T/dn
  ( VERIF_DIR=$T/dn VERIF_PHASE=$phase strace -f -o /dev/null -e trace=unlinkat -e inject=unlinkat:signal=SIGKILL:when=$n $T/file.test -test.run TestVerifC11CrashDuringPurge > /dev/null 2>&1 ) 2>/dev/null
  k=$?
  out=$(run dn check)
  left=$(find $T/dn -type f | sed 's/.*\///' | sort | tr '\n' ' ')
  if echo "$out" | grep -q -- "--- FAIL"; then
    echo "crash at unlinkat #$n of $phase (exit $k): left [$left]"; echo "$out" | grep -E "content is gone|cannot be listed" | sed 's/^/    /'
    rc=1
  else
    echo "crash at unlinkat #$n of $phase (exit $k): left [$left] ok"
  fi
  [ $k -ne 137 ] && break
 done
done
exit $rc
