#!/bin/bash
# usage: mkpatch.sh <name> <prop> <expected-obligation-substring> <file> <sed-expr> [<file> <sed-expr> ...]
# creates selftest/mustfail/<name>.diff (+ .meta) from a sed edit on a scratch copy of /repo
set -e
name=$1; prop=$2; expect=$3; shift 3
kind=${KIND:-mustfail}
T=$(mktemp -d /tmp/mkpatch.XXXXXX)
rsync -a --exclude .git /repo/ $T/a/
rsync -a --exclude .git /repo/ $T/b/
while [ $# -gt 0 ]; do
  sed -i "$2" $T/b/$1
  shift 2
done
(cd $T && diff -ruN a b > out.diff || true)
if [ ! -s $T/out.diff ]; then echo "empty patch"; rm -rf $T; exit 1; fi
cp $T/out.diff /verif/selftest/$kind/$name.diff
echo "prop=$prop expect=$expect" > /verif/selftest/$kind/$name.meta
rm -rf $T
echo "created $kind/$name"
