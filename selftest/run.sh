#!/bin/bash
# Must-fail corpus: every patch under selftest/mustfail breaks a property while still compiling;
# the named check must report a violation (exit 1) on the patched scratch copy.  Patches under
# selftest/mustpass are harmless edits that must keep the check green.
# usage: run.sh [name-substring]     (PAR=n runs n patches at a time, default 3)
cd "$(dirname "$0")/.."
export GOFLAGS=-mod=mod GOPROXY=off GOSUMDB=off GOTOOLCHAIN=local
filter=${1:-}
run_one() {
  kind=$1; d=$2
  name=$(basename $d .diff)
  prop=$(sed -n 's/.*prop=\([^ ]*\).*/\1/p' selftest/$kind/$name.meta)
  expect=$(sed -n 's/.*expect=\(.*\)$/\1/p' selftest/$kind/$name.meta)
  T=$(mktemp -d /tmp/selftest.XXXXXX)
  rsync -a --exclude .git /repo/ $T/repo/
  if ! (cd $T/repo && patch -s -p1 < /verif/$d); then echo "PATCH-FAILED $name"; rm -rf $T; return 1; fi
  if [ $kind = mustpass ]; then
    # several properties may be named (comma separated): all of them must stay green
    rc=0; out=""
    for p in ${prop//,/ }; do
      o=$(bin/govc check -prop $p -tier quick -repo $T/repo -work $T/work -no-evidence 2>&1) || rc=1
      out="$out
$o"
    done
  else
    out=$(bin/govc check -prop $prop -tier quick -repo $T/repo -work $T/work -no-evidence 2>&1); rc=$?
  fi
  rm -rf $T
  if [ $kind = mustfail ]; then
    if [ $rc -eq 1 ] && echo "$out" | grep -q "VIOLATION property=$prop" && { [ -z "$expect" ] || echo "$out" | grep -qF "$expect"; }; then
      echo "ok   mustfail $name ($prop) -> $(echo "$out" | grep -c VIOLATION) violation(s)"
    else
      echo "MISS mustfail $name ($prop) rc=$rc"; echo "$out" | tail -5; return 1
    fi
  else
    if [ $rc -eq 0 ]; then echo "ok   mustpass $name ($prop)"; else echo "FALSE-ALARM mustpass $name ($prop)"; echo "$out" | grep -E "VIOLATION|UNDECIDED" | head; return 1; fi
  fi
}
export -f run_one
list=""
for d in selftest/mustfail/*.diff; do [ -e "$d" ] && { [ -z "$filter" ] || [[ "$d" == *$filter* ]]; } && list="$list mustfail:$d"; done
for d in selftest/mustpass/*.diff; do [ -e "$d" ] && { [ -z "$filter" ] || [[ "$d" == *$filter* ]]; } && list="$list mustpass:$d"; done
out=$(mktemp /tmp/selftest.out.XXXXXX)
echo $list | tr ' ' '\n' | grep . | xargs -P ${PAR:-3} -I{} bash -c 'x={}; run_one ${x%%:*} ${x#*:}' | tee $out
rc=0
if grep -qE "^(MISS|FALSE-ALARM|PATCH-FAILED)" $out; then rc=1; fi
rm -f $out
exit $rc
