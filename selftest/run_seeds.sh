#!/bin/bash
# Re-runs every seeded change (seeded/*/patch.diff) against the checks named in its meta.json
# ("checks"); each must be reported by at least one of them, except those recorded as a stated limit
# of the checks ("expected": "missed").  Scratch copies only; /repo is not touched.
# usage: run_seeds.sh [name-substring]      (PAR=n runs n seeds at a time, default 3)
cd "$(dirname "$0")/.."
filter=${1:-}
one() {
  d=$1
  checks=$(jq -r '.checks[]' $d/meta.json)
  exp=$(jq -r '.expected // "caught"' $d/meta.json)
  out=$(tools/tryseed.sh $d/patch.diff $checks 2>&1)
  if echo "$out" | grep -q "^VIOLATION"; then
    echo "ok   seed $(basename $d) -> $(echo "$out" | grep -c '^VIOLATION') violation line(s) from: $(echo $checks)"
  elif [ "$exp" = missed ]; then
    echo "miss (recorded limit) seed $(basename $d) (checks: $(echo $checks))"
  else
    echo "MISS seed $(basename $d) (checks: $(echo $checks))"
  fi
}
export -f one
out=$(mktemp /tmp/seeds.out.XXXXXX)
for d in seeded/*/; do
  [ -f $d/patch.diff ] || continue
  [ -z "$filter" ] || [[ "$d" == *$filter* ]] || continue
  echo $d
done | xargs -P ${PAR:-3} -I{} bash -c 'one {}' | tee $out
rc=0
grep -q "^MISS" $out && rc=1
rm -f $out
exit $rc
