#!/bin/bash
# Re-runs every seeded change (seeded/*/patch.diff) against the checks named in its meta.json
# ("checks"); each must be reported by at least one of them, except those recorded as a stated limit
# of the checks ("expected": "missed").  Scratch copies only; /repo is not touched.
cd "$(dirname "$0")/.."
fail=0
for d in seeded/*/; do
  [ -f $d/patch.diff ] || continue
  checks=$(jq -r '.checks[]' $d/meta.json)
  exp=$(jq -r '.expected // "caught"' $d/meta.json)
  out=$(tools/tryseed.sh $d/patch.diff $checks 2>&1)
  if echo "$out" | grep -q "^VIOLATION"; then
    echo "ok   seed $(basename $d) -> $(echo "$out" | grep -c '^VIOLATION') violation line(s) from: $(echo $checks)"
  elif [ "$exp" = missed ]; then
    echo "miss (recorded limit) seed $(basename $d) (checks: $(echo $checks))"
  else
    echo "MISS seed $(basename $d) (checks: $(echo $checks))"; fail=1
  fi
done
exit $fail
