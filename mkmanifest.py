#!/usr/bin/env python3
"""Generates /verif/MANIFEST.json from the per-property table below (kept in one place so the
claimed level, technique and not_applicable reasons stay in step with what the checks do)."""
import json, subprocess

TECH = "contract-based deductive verification: weakest-precondition style VC generation by symbolic execution of go/ssa of the real code against //@ contracts (tag verif), discharged by z3 5.1 / z3 4.8 / cvc5 portfolio"

claimed = {
 "C01": dict(sec="7 C01",
   text="Proof (all inputs, all histories via the session-loop invariant) that the SMTP side hands the manager at most one delivery per DATA block, only after a complete block, with exactly the sender and the recipient list accepted since the last MAIL, that RCPT appends exactly the parsed recipient and nothing else changes the envelope, and that every exit of DATA clears the envelope. The fan-out inside StoreManager.Deliver and the stores are covered by their own contracts as they come under contract (see evidence: functions_under_contract).",
   note="assumed: textproto / net.Conn / bytes.Buffer contracts, extension hooks return arbitrary results and do not touch session state, NewSession initial state (trusted), message.Manager.Deliver interface contract (ghost call log)"),
 "C02": dict(sec="7 C02, 10",
   text="Proof of the data path link by link, over abstract content values (what a reader yields, what a writer has received, what a file holds; equality and concatenation only): (1) SMTP dataHandler hands Deliver exactly the block ReadDotBytes returned; (2) Deliver hands the store, for every mailbox, a delivery whose reader yields two generated header lines followed by exactly the bytes of that block; (3) a delivery's Source yields what its reader yields; (4) the memory store keeps exactly what the message's Source yielded, the file store's raw file holds exactly that (create, copy, flush, in that order, on the file named by mailbox and id); (5) a stored message's Source yields exactly the stored bytes / the raw file's content; (6) StoreManager.SourceReader returns what the stored message's Source yields; (7) the REST and web-UI source handlers copy exactly that to the response.  Every link is a postcondition proved on the real function for all inputs; the links compose by equality of the content values.  NOT decided: the byte-level behaviour of the libraries the links rest on (textproto dot-unstuffing, io.Copy, bufio, os, net/http: assumed contracts), the POP3 RETR/TOP path (line scanner and dot-stuffing loop), MIME part extraction for the rendered views.",
   note="assumed: library contracts over content values (bytes.NewReader, strings.NewReader, io.MultiReader, io.NopCloser, io.ReadAll, io.Copy, bufio.Writer, os.Create/Open, Flush), a slice handed to a reader is not modified afterwards, the raw file is written only by AddMessage; POP3 and the MIME views are not covered"),
 "C03": dict(sec="7 C03",
   text="Proof that the command loop preserves the session invariant I_smtp for every command sequence (MAIL only after an accepted greeting, RCPT only in a transaction, DATA only with >= 1 recipient, envelope discarded by RSET / EHLO / end of DATA), that every handler is entered in the state it requires, that Deliver is called only after ReadDotBytes returned without error, and that no index, slice, nil-dereference or type-assertion panic is reachable in handler.go (safe obligations).",
   note="assumed: textproto / net contracts; TLS negotiation and NewSession trusted; reply counting ('exactly one reply') and time-outs are not decided"),
 "C04": dict(sec="7 C04",
   text="Proof, for every address string and naming mode, that an accepted mailbox name is non-empty, has no '+' (local mode), is in canonical letter case (no upper-case letter outside the IPv6 literal tag), and that parseMailboxName returns exactly the lower-cased local part up to the first '+'. Fixed-point and case-insensitivity of the quoted/escaped local-part parser are covered only as far as the contracts listed in the evidence reach.",
   note="assumed: strings.ToLower is byte-wise on ASCII, strings.Index/IndexByte/HasPrefix, net.ParseIP character set"),
 "C05": dict(sec="7 C05",
   text="Proof that accept / store decisions equal the documented rule on the lower-cased domain for every configuration, that a sender is refused exactly when a reject-origin pattern matches (Spec_wmatch), that RCPT is accepted only if a hook allowed it or policy accepts it and the recipient limit is not reached (and the limit is an invariant of the session), and that SliceContains / SliceToLower are correct for all slices.",
   note="assumed: MatchWithWildcards == Spec_wmatch is a TRUSTED contract (its dynamic-programming body is not proved); in its place a BOUNDED stand-in runs on every check: the real function against the executable specification for all patterns of length <= 5 over {a,b,.,*,?} and all inputs of length <= 5 over {a,b,.} (1.4 million pairs, exhaustive within the bound, reported under coverage.bounded, never counted as proved); config.Process lower-casing proved via SliceToLower only"),
 "C06": dict(sec="7 C06",
   text="Proof (loop-free handler, all sizes and limits) that a DATA block longer than MaxMessageBytes is never passed to Deliver and that the session continues in READY with an empty envelope.",
   note="assumed: ReadDotBytes returns the block it read; bytes.Buffer.Bytes returns the slice it was built from"),
 "C07": dict(sec="7 C07",
   text="Proof, per operation and for every store state satisfying the representation invariant (which every operation is proved to preserve, i.e. for every history), that the memory store behaves as the ordered-mailbox model: ids are the decimal index, fresh and never reused, GetMessages returns exactly the mailbox's messages oldest-first (count, membership, order), GetMessage/MarkSeen/RemoveMessage of an id that does not exist answer storage.ErrNotExist (never (nil,nil) or success), removal deletes exactly the named key, other mailboxes are untouched (frame); and that the file store's list logic does the same over the index file's content before and after each operation (ghost index: ids and seen flags in order): getMessage finds the first match or ErrNotExist, 'latest' is the last entry, removeMessage removes exactly the first match and shifts the rest up keeping order, AddMessage appends as last entry and keeps every earlier entry, MarkSeen of a missing id is ErrNotExist.  Both back-ends are checked against the same storage.Store interface contract.",
   note="assumed: gob round trip (readIndex is an assumed contract: the k-th decoded record has the exported fields of the k-th encoded message; writeIndex's content clauses are assumed, its file-system protocol is verified), file newMessage (cap loop) and file VisitMailboxes are assumed contracts, generateID uniqueness, sort.Slice, map iteration (D6), strconv.Itoa injective, locks are no-ops sequentially (interleavings are C09)"),
 "C08": dict(sec="7 C08",
   text="Proof for the memory store that with a cap the mailbox never holds more than cap messages after a delivery, that exactly the oldest entries are evicted (every survivor is newer than every evicted message), that without a cap nothing is evicted, and that every cap-evicted message is reported to the size enforcer and to listeners (capEvicted); proof for the file store that the index written by AddMessage never lists more than cap entries.  The size enforcer's own loop (container/list, goroutine rendez-vous) is not under contract.",
   note="assumed: file newMessage cap loop (assumed contract), channel rendez-vous with the enforcer goroutine (D2/D3); the enforcer's accounting loop is NOT verified — only that every removal path now reports to it"),
 "C09": dict(sec="7 C09, 10", category="other",
   text="REDUCED LEVEL (lock discipline and absence of crashes, decided deductively; linearisability, deadlock freedom in general and 'no lost mail under interleavings' are NOT decided).  For every store operation and every path through it: (memory store) the mailbox table is read and written only under the store mutex, a mailbox's message map and counters are read only under its RWMutex and written / updated only under it in write mode, unless the object was allocated by the operation itself; (file store) every function that touches a mailbox's files is entered with that mailbox's lock in the required mode (checked at each call site) and every file-system mutation happens under a write lock; (both) no lock is acquired and no channel rendez-vous is started while another lock is held, except for the event broker's leaf lock; every Unlock matches a held lock in the same mode; every return path leaves with the locks it was entered with.  Together with the safety obligations (no nil dereference, index, type assertion or closed-channel panic on any path) of the same functions.",
   note="assumed: a lock is identified by its address; HashLock.Get gives the same lock for the same mailbox (trusted); AsyncEventBroker.Emit's lock is a leaf lock (trusted: it starts goroutines and returns); generateID's receive from the counter channel while the mailbox lock is held is not flagged (receives are not); the seen flag of a memory-store message is read by Seen() without a lock (not expressible: the lock lives in the mailbox, the message has no back pointer) — a benign data race that this check does not cover; schedules, fairness, linearisability: not decided"),
 "C10": dict(sec="7 C10",
   text="Proof that the file store keeps no state between operations: every store method builds its mailbox handle from scratch (mbox(): not loaded, empty list, index path a deterministic function of the mail path and the mailbox name) and every result and effect is stated over the index file's content (ghost index) before and after the operation, so a fresh Store on the same path is indistinguishable; with C07's file obligations: order, ids and seen flags are those of the index file.",
   note="assumed: gob round trip (readIndex assumed), id uniqueness across a restart within one second (generateID), message bodies (.raw files) are not modelled beyond existence"),
 "C11": dict(sec="7 C11",
   text="Proof of the crash invariant R1 'the mailbox index is absent or a complete stream' after every file-system mutation (os.Create, Encode/Write, Flush, Rename, Remove, RemoveAll, MkdirAll) inside writeIndex, removeMessage, purge and AddMessage, over a ghost file system in which a file is incomplete from creation until a successful Flush and rename/unlink are atomic; the index is only ever replaced by renaming a complete temporary file over it.",
   note="assumed: process death not power loss (no fsync reasoning), rename/unlink atomic, raw-file paths differ from the index path (assumed clause), R2 (every listed message has its complete .raw) and 'pre- or post-state' (A) are NOT decided; cap eviction followed by a crash is not analysed"),
 "C12": dict(sec="7 C12",
   text="Proof of the decision logic: the visitor DoScan passes to VisitMailboxes calls RemoveMessage exactly for the messages whose Date is before the cutoff (count and, in order, mailbox and id of each, via the store's ghost removal log) and for no other; with a retention period <= 0 Start never scans and removes nothing; whenever Start returns the shutdown channel is closed exactly once (Join is released).  'While mail is being delivered' and 'stops promptly' are schedule / liveness statements and are not decided.",
   note="assumed: time.Time.Before is a pure function of two instants, Message getters pure, Store.VisitMailboxes applies the visitor to lists of existing messages (interface contract; refined by the stores when they come under contract), select/channels nondeterministic (D3)"),
 "C13": dict(sec="7 C13",
   text="Proof that every POP3 command sequence preserves I_pop (one flag per snapshot message, msgCount == number of set flags, by induction lemmas over a recursive count), that the snapshot slice is assigned only at login, that DELE clears exactly one set flag, RSET sets all, STAT's loop count equals msgCount, LIST/UIDL send exactly msgCount entry lines, that RemoveMessage is called only by QUIT in TRANSACTION state and exactly for the marked messages (ghost removal log, in order, with the message's own id), that any other end of the command loop removes nothing, and that no index/nil/type-assertion panic is reachable in handler.go.",
   note="assumed: storage.Store / storage.Message interface contracts (getters pure), fmt.Fprint counted but content not modelled, bufio/net/tls contracts, TLS out of scope; listener not covered"),
 "C14": dict(sec="7 C14",
   text="Proof, for every request and manager state, that each REST v1 handler and each web-UI mailbox handler makes exactly the one manager call it is named after, with the canonical mailbox name and the id from the URL, changes nothing else (ghost call log of message.Manager), answers 404 exactly when the manager says ErrNotExist, copies every metadata field of the list answer index by index, and cannot dereference nil; that StoreManager.GetMessage / SourceReader refine the Manager contract 'a result or an error, never neither' given the Store interface contract; and that each Go-client operation sends the method its route is registered for and a JSON body where the handler decodes one.",
   note="assumed: net/http, encoding/json, io.Copy, mux.Vars deliver the decoded path segments; the Store interface contract (GetMessage: message xor error) is ASSUMED here until both back-ends are verified against it (C07) - the memory store's GetMessage of a missing id returns (nil,nil), which is where the web-UI nil dereference comes from; URL escaping / routing of names with URL-significant characters is not decided; client.ListMailboxWithContext is not under contract (a JSON null element would be dereferenced)"),
 "C15": dict(sec="7 C15, 10",
   text="Proof, for every hub state and every set of listeners, of the hub's operations one at a time (they are closures run in FIFO order by the hub goroutine): a stored / deleted broadcast hands the event to every registered listener exactly once, whatever the history length; a listener whose attempt fails — by returning an error or by panicking (send on its closed channel) — is dropped and nobody else is: the other listeners still get the event, keep their registration and their earlier events; AddListener registers, RemoveListener removes exactly that listener.  For the real WebSocket listeners (v1, v2): Receive and Delete contain no channel operation that can wait (nonblocking obligations), their only tolerated panic is the send on a closed channel, which the hub is proved to contain (safe.panic@unrecovered at the call sites); Close closes the channel and deregisters exactly once whatever is still queued.  The order in which one listener sees events is the order of hub operations because each operation completes its relay before the next starts (sequential semantics of the actor loop, assumed: D3).  NOT decided: the content and order of the history playback (container/ring semantics; AddListener's playback closure is not under contract), timing, the WebSocket writer goroutines.",
   note="assumed: Listener interface contract (one attempt per call, ghost log), channel model D3 (sends have no effect, receive arbitrary), sync.Once, container/ring Next/Do; runOp / Start / FIFO order of the op channel are not under contract; history playback not decided"),
 "C16": dict(sec="7 C16",
   text="Proof of emission counts and identities: Deliver emits exactly one stored event per successful AddMessage carrying the returned id and the mailbox; the memory store emits exactly one deleted event for an explicit remove (with that id and mailbox), one per message for purge, one per cap-evicted message; the file store emits one per removed message and one per purged message.  The ordering half of the property (a listener never runs for the next event before the previous finished) is about goroutine scheduling of AsyncEventBroker.Emit and is not decided.",
   note="assumed: AsyncEventBroker.Emit is an assumed contract (the engine logs the call; its loop starts one goroutine per listener), retention's deletes go through RemoveMessage (C12), size-limit eviction in the enforcer goroutine is not under contract"),
 "C17": dict(sec="7 C17",
   text="Proof of the Go side for MAIL and RCPT: a recipient / sender is accepted only if the hook's last answer was not deny and (it was allow, or it was defer / absent and policy accepts); deny leaves envelope and state unchanged.",
   note="assumed: hook results are arbitrary (Lua semantics not modelled); Emit's loop and the Lua glue are not yet under contract"),
}

pending = {
 "C18": "decided by third-party HTML/CSS parsers (bluemonday, x/net/html, gorilla/css): no contract on inbucket's glue can express 'no active content' without assuming the property (DESIGN.md section 7, C18)",
 "C19": "liveness / schedule property (graceful drain, stop accepting, 'after and only after'): outside what function contracts can decide (DESIGN.md section 7, C19)",
}

def main():
    hooks = subprocess.run(["git", "-C", "/repo", "log", "--format=%h %s"], capture_output=True, text=True).stdout.splitlines()
    hook_commits = [l.split()[0] for l in hooks if "verif hooks" in l]
    m = {
        "version": 1,
        "setup_cmd": "cd /verif/govc && GOFLAGS=-mod=mod GOPROXY=off GOSUMDB=off GOTOOLCHAIN=local go build -o /verif/bin/govc .",
        "hooks": {"guard": "verif", "enable": "go/packages load with -tags verif (contract files pkg/*/zz_contracts_verif.go: //@ comment clauses + spec functions)",
                  "baseline_off_cmd": "cd /repo && go test -mod=mod -vet=off -count=1 -timeout 25m ./...",
                  "source_commits": hook_commits, "add_only": True},
        "engines": [{"name": "govc", "path": "govc", "serves_properties": sorted(claimed),
                     "kind_free_text": "deductive verifier for Go built here: contracts (//@ requires/ensures/invariant/decreases/modifies, preds, ghost state) -> generated Go clause functions -> symbolic execution of go/ssa (naive form) with loop cutting by invariants, modular calls, frame checks, safety obligations -> SMT-LIB -> z3-new 5.1.0 | z3 4.8.12 | cvc5 1.0 raced per obligation"}],
        "checks": [],
        "notes": "see DESIGN.md; selftest/run.sh is the must-fail corpus; known_findings.txt lists repaired defects (fixed:) and recorded findings (known:)",
        "not_applicable": [{"property_id": k, "reason": v} for k, v in sorted(pending.items())],
    }
    for pid in sorted(claimed):
        c = claimed[pid]
        m["checks"].append({
            "property_id": pid,
            "quick_cmd": f"./check {pid} quick",
            "thorough_cmd": f"./check {pid} thorough",
            "evidence_file": f"evidence/{pid}.json",
            "replay_cmd_template": f"./check {pid} --replay {{path}}",
            "engine": "govc",
            "level_claimed": {"category": c.get("category", "proof"), "text": c["text"], "design_ref": "DESIGN.md section " + c["sec"]},
            "level_note": c["note"],
            "technique": TECH,
        })
    json.dump(m, open("/verif/MANIFEST.json", "w"), indent=1)

main()
