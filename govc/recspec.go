package main

import (
	"golang.org/x/tools/go/ssa"
)

func (e *Exec) recSpecApp(fn *ssa.Function, args []Value, st *State) Value {
	e.unsupported("recursive specification function %s (not implemented yet)", fn.Name())
	return e.freshOf(st, "rec", fn.Signature.Results())
}
