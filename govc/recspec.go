package main

import (
	"fmt"
	"regexp"
	"strings"

	"golang.org/x/tools/go/ssa"
)

var heapSymRe = regexp.MustCompile(`H\.[^ ()]*!0`)

// recSpecApp: application of a recursive specification function.  The function must be
// heap-independent (sequence values are passed as vcSeq); it becomes an SMT `define-fun-rec`.
func (e *Exec) recSpecApp(fn *ssa.Function, args []Value, st *State) Value {
	name := "rf." + smtIdent(strings.TrimPrefix(fnKey(fn), repoModule+"/"))
	sig := fn.Signature
	if sig.Results().Len() != 1 {
		e.unsupported("recursive specification function %s must have one result", fn.Name())
		return e.freshOf(st, "rec", sig.Results())
	}
	rs := e.ti.sortOf(sig.Results().At(0).Type())
	var ts []Term
	for i, a := range args {
		ts = append(ts, e.asTerm(st, a, sig.Params().At(i).Type()))
	}
	if !e.recDefs[name] && !e.recBuilding[name] {
		e.recBuilding[name] = true
		var bound []string
		var bargs []Value
		for i := 0; i < sig.Params().Len(); i++ {
			p := sig.Params().At(i)
			s := e.ti.sortOf(p.Type())
			nm := fmt.Sprintf("p%d.%s", i, smtIdent(p.Name()))
			bound = append(bound, fmt.Sprintf("(%s %s)", nm, s))
			bargs = append(bargs, Term{nm, s})
		}
		tmp := &State{pc: tTrue, cells: map[*Cell]Value{}, heap: map[string]Term{}, locks: map[string]int{}, alloc: tInt(0)}
		e.quant++
		e.spec++
		rsv, out := e.runInline(fn, bargs, nil, tmp, nil)
		e.spec--
		e.quant--
		delete(e.recBuilding, name)
		if out == nil || len(rsv) != 1 {
			e.unsupported("recursive specification function %s has no value", fn.Name())
			return e.freshOf(st, "rec", sig.Results())
		}
		body := rsv[0].(Term)
		if heapSymRe.MatchString(body.S) {
			e.unsupported("recursive specification function %s reads the heap (%s): pass sequence values (vcSeq) instead", fn.Name(), heapSymRe.FindString(body.S))
		}
		e.recDefs[name] = true
		e.smt.declared[name] = true
		// declared function + unfolding axiom triggered on applications (measured: z3 decides the
		// count-invariant steps in 0.2 s with this encoding and times out with define-fun-rec)
		var psorts, pnames []string
		for i := 0; i < sig.Params().Len(); i++ {
			psorts = append(psorts, e.ti.sortOf(sig.Params().At(i).Type()))
			pnames = append(pnames, fmt.Sprintf("p%d.%s", i, smtIdent(sig.Params().At(i).Name())))
		}
		e.smt.recDefs = append(e.smt.recDefs, fmt.Sprintf("(declare-fun %s (%s) %s)", name, strings.Join(psorts, " "), rs))
		appT := "(" + name + " " + strings.Join(pnames, " ") + ")"
		e.smt.axioms = append(e.smt.axioms, fmt.Sprintf("(assert (forall (%s) (! (= %s %s) :pattern (%s))))", strings.Join(bound, " "), appT, body.S, appT))
		e.trusted("recursive specification functions are uninterpreted functions with an unfolding axiom; their termination (consistency of the axiom) is checked only where a `decreases` clause is given")
	} else if !e.recDefs[name] {
		// inside its own definition: plain application
		var sorts []string
		for _, t := range ts {
			sorts = append(sorts, t.Sort)
		}
		_ = sorts
	}
	return app(rs, name, ts...)
}
