package main

import (
	"fmt"
	"sort"
	"strings"
)

// Term is an SMT-LIB term with its sort.
type Term struct {
	S    string
	Sort string
}

func (t Term) String() string { return t.S }

const (
	SInt   = "Int"
	SBool  = "Bool"
	SStr   = "Str"
	SSlice = "Slice"
)

func tInt(n int64) Term {
	if n < 0 {
		return Term{fmt.Sprintf("(- %d)", -n), SInt}
	}
	return Term{fmt.Sprintf("%d", n), SInt}
}

var tTrue = Term{"true", SBool}
var tFalse = Term{"false", SBool}

func tBool(b bool) Term {
	if b {
		return tTrue
	}
	return tFalse
}

func app(sort string, f string, args ...Term) Term {
	var b strings.Builder
	b.WriteByte('(')
	b.WriteString(f)
	for _, a := range args {
		b.WriteByte(' ')
		b.WriteString(a.S)
	}
	b.WriteByte(')')
	return Term{b.String(), sort}
}

func tAnd(ts ...Term) Term {
	var xs []Term
	for _, t := range ts {
		if t.S == "true" {
			continue
		}
		if t.S == "false" {
			return tFalse
		}
		xs = append(xs, t)
	}
	if len(xs) == 0 {
		return tTrue
	}
	if len(xs) == 1 {
		return xs[0]
	}
	return app(SBool, "and", xs...)
}

func tOr(ts ...Term) Term {
	var xs []Term
	for _, t := range ts {
		if t.S == "false" {
			continue
		}
		if t.S == "true" {
			return tTrue
		}
		xs = append(xs, t)
	}
	if len(xs) == 0 {
		return tFalse
	}
	if len(xs) == 1 {
		return xs[0]
	}
	return app(SBool, "or", xs...)
}

func tNot(t Term) Term {
	if t.S == "true" {
		return tFalse
	}
	if t.S == "false" {
		return tTrue
	}
	if strings.HasPrefix(t.S, "(not ") {
		return Term{t.S[5 : len(t.S)-1], SBool}
	}
	return app(SBool, "not", t)
}

func tImp(a, b Term) Term {
	if a.S == "true" {
		return b
	}
	if a.S == "false" || b.S == "true" {
		return tTrue
	}
	return app(SBool, "=>", a, b)
}

func tEq(a, b Term) Term {
	if a.S == b.S {
		return tTrue
	}
	return app(SBool, "=", a, b)
}

func tIte(c, a, b Term) Term {
	if c.S == "true" {
		return a
	}
	if c.S == "false" {
		return b
	}
	if a.S == b.S {
		return a
	}
	return app(a.Sort, "ite", c, a, b)
}

func tAdd(a, b Term) Term { return app(SInt, "+", a, b) }
func tSub(a, b Term) Term { return app(SInt, "-", a, b) }
func tLe(a, b Term) Term  { return app(SBool, "<=", a, b) }
func tLt(a, b Term) Term  { return app(SBool, "<", a, b) }

func tSelect(arr Term, idx Term, sort string) Term { return app(sort, "select", arr, idx) }
func tStore(arr Term, idx Term, v Term) Term       { return app(arr.Sort, "store", arr, idx, v) }

func arraySort(idx, elem string) string { return "(Array " + idx + " " + elem + ")" }

// Slice accessors
func slArr(s Term) Term { return app(SInt, "s_arr", s) }
func slOff(s Term) Term { return app(SInt, "s_off", s) }
func slLen(s Term) Term { return app(SInt, "s_len", s) }
func slCap(s Term) Term { return app(SInt, "s_cap", s) }
func mkSlice(arr, off, ln, cp Term) Term {
	return app(SSlice, "mkslice", arr, off, ln, cp)
}

var nilSlice = Term{"(mkslice 0 0 0 0)", SSlice}

// ---------------------------------------------------------------------------------------------
// SMT context: declarations shared by all VCs of one function verification

type Decl struct {
	Name string
	Text string // full declaration command
}

type SMT struct {
	decls    []Decl
	declared map[string]bool
	sortsDecl []string // datatype declarations in order
	sortDone map[string]bool
	axioms   []string // global axioms (assert ...)
	axiomDone map[string]bool
	nfresh   int
	strConsts map[string]Term
	alias map[string]string
	recDefs []string
}

func newSMT() *SMT {
	return &SMT{declared: map[string]bool{}, sortDone: map[string]bool{}, axiomDone: map[string]bool{}, strConsts: map[string]Term{}, alias: map[string]string{}}
}

func (m *SMT) fresh(prefix, sort string) Term {
	m.nfresh++
	name := fmt.Sprintf("%s!%d", smtIdent(prefix), m.nfresh)
	m.declare(name, sort)
	return Term{name, sort}
}

// freshName returns a fresh symbol name without declaring it (for bound variables).
func (m *SMT) freshName(prefix string) string {
	m.nfresh++
	return fmt.Sprintf("%s!%d", smtIdent(prefix), m.nfresh)
}

func (m *SMT) declare(name, sort string) {
	if m.declared[name] {
		return
	}
	m.declared[name] = true
	m.decls = append(m.decls, Decl{name, fmt.Sprintf("(declare-fun %s () %s)", name, sort)})
}

func (m *SMT) declareFun(name string, args []string, ret string) {
	if m.declared[name] {
		return
	}
	m.declared[name] = true
	m.decls = append(m.decls, Decl{name, fmt.Sprintf("(declare-fun %s (%s) %s)", name, strings.Join(args, " "), ret)})
}

// define introduces a named abbreviation.
func (m *SMT) define(prefix string, t Term) Term {
	if !strings.HasPrefix(t.S, "(") || (len(t.S) < 24 && !strings.HasPrefix(t.S, "(ite")) {
		return t
	}
	m.nfresh++
	name := fmt.Sprintf("%s!%d", smtIdent(prefix), m.nfresh)
	m.declared[name] = true
	m.alias[name] = t.S
	if t.Sort == SBool {
		m.decls = append(m.decls, Decl{name, fmt.Sprintf("(define-fun %s () %s %s)", name, t.Sort, t.S)})
	} else {
		// non-Boolean abbreviations are declared constants with a defining equation, so that they stay
		// atomic inside quantifier patterns (solvers expand define-fun macros inside patterns)
		m.decls = append(m.decls, Decl{name, fmt.Sprintf("(declare-fun %s () %s)", name, t.Sort)})
		m.axioms = append(m.axioms, fmt.Sprintf("(assert (= %s %s))", name, t.S))
	}
	return Term{name, t.Sort}
}

func (m *SMT) axiom(key, text string) {
	if m.axiomDone[key] {
		return
	}
	m.axiomDone[key] = true
	m.axioms = append(m.axioms, text)
}

func smtIdent(s string) string {
	var b strings.Builder
	for i := 0; i < len(s); i++ {
		c := s[i]
		if isIdentChar(c) || c == '.' || c == '$' {
			b.WriteByte(c)
		} else {
			b.WriteByte('_')
		}
	}
	if b.Len() == 0 {
		return "x"
	}
	return b.String()
}

// declareDatatype declares a struct datatype once.
func (m *SMT) declareDatatype(name string, fields []string, sorts []string) {
	if m.sortDone[name] {
		return
	}
	m.sortDone[name] = true
	var b strings.Builder
	fmt.Fprintf(&b, "(declare-datatypes ((%s 0)) (((mk_%s", name, name)
	for i := range fields {
		fmt.Fprintf(&b, " (%s %s)", fields[i], sorts[i])
	}
	b.WriteString("))))")
	m.sortsDecl = append(m.sortsDecl, b.String())
}

const prelude = `(set-option :produce-models true)
(set-logic ALL)
(declare-sort Str 0)
(declare-datatypes ((Slice 0)) (((mkslice (s_arr Int) (s_off Int) (s_len Int) (s_cap Int)))))
(declare-fun sidx (Slice Int) Int)
(assert (forall ((s Slice) (i Int)) (! (= (sidx s i) (+ (s_off s) i)) :pattern ((sidx s i)))))
(declare-fun slen (Str) Int)
(declare-fun sat (Str Int) Int)
(declare-fun ssub (Str Int Int) Str)
(declare-fun scat (Str Str) Str)
(declare-fun seq (Str Str) Bool)
(declare-const sempty Str)
(declare-fun lcb (Int) Int)
(declare-fun ucb (Int) Int)
(assert (= (slen sempty) 0))
(assert (forall ((s Str)) (! (>= (slen s) 0) :pattern ((slen s)))))
(assert (forall ((s Str) (i Int)) (! (and (<= 0 (sat s i)) (<= (sat s i) 255)) :pattern ((sat s i)))))
(assert (forall ((a Str) (b Str)) (! (= (seq a b) (= a b)) :pattern ((seq a b)))))
(assert (forall ((a Str) (b Str)) (! (=> (and (= (slen a) (slen b)) (forall ((i Int)) (! (=> (and (<= 0 i) (< i (slen a))) (= (sat a i) (sat b i))) :pattern ((sat a i)) :pattern ((sat b i))))) (seq a b)) :pattern ((seq a b)))))
(assert (forall ((s Str) (lo Int) (hi Int)) (! (=> (and (<= 0 lo) (<= lo hi) (<= hi (slen s))) (= (slen (ssub s lo hi)) (- hi lo))) :pattern ((ssub s lo hi)))))
(assert (forall ((s Str) (lo Int) (hi Int) (i Int)) (! (=> (and (<= 0 lo) (<= lo hi) (<= hi (slen s)) (<= 0 i) (< i (- hi lo))) (= (sat (ssub s lo hi) i) (sat s (+ lo i)))) :pattern ((sat (ssub s lo hi) i)))))
(assert (forall ((s Str) (lo Int) (hi Int) (j Int)) (! (=> (and (<= 0 lo) (<= lo j) (< j hi) (<= hi (slen s))) (= (sat s j) (sat (ssub s lo hi) (- j lo)))) :pattern ((ssub s lo hi) (sat s j)))))
(declare-fun sbyte (Int) Str)
(assert (forall ((c Int)) (! (and (= (slen (sbyte c)) 1) (=> (and (<= 0 c) (<= c 255)) (= (sat (sbyte c) 0) c))) :pattern ((sbyte c)))))
(assert (forall ((a Str) (b Str)) (! (= (slen (scat a b)) (+ (slen a) (slen b))) :pattern ((scat a b)))))
(assert (forall ((a Str) (b Str) (i Int)) (! (=> (and (<= 0 i) (< i (+ (slen a) (slen b)))) (= (sat (scat a b) i) (ite (< i (slen a)) (sat a i) (sat b (- i (slen a)))))) :pattern ((sat (scat a b) i)))))
(assert (forall ((c Int)) (! (= (lcb c) (ite (and (<= 65 c) (<= c 90)) (+ c 32) c)) :pattern ((lcb c)))))
(assert (forall ((c Int)) (! (= (ucb c) (ite (and (<= 97 c) (<= c 122)) (- c 32) c)) :pattern ((ucb c)))))
`

// strConst returns the term for a Go string constant.
func (m *SMT) strConst(s string) Term {
	if s == "" {
		return Term{"sempty", SStr}
	}
	if t, ok := m.strConsts[s]; ok {
		return t
	}
	m.nfresh++
	name := fmt.Sprintf("strc!%d", m.nfresh)
	m.declare(name, SStr)
	t := Term{name, SStr}
	m.strConsts[s] = t
	var facts []string
	facts = append(facts, fmt.Sprintf("(= (slen %s) %d)", name, len(s)))
	if len(s) <= 400 {
		for i := 0; i < len(s); i++ {
			facts = append(facts, fmt.Sprintf("(= (sat %s %d) %d)", name, i, s[i]))
		}
	}
	m.axiom("strc:"+name, "(assert (and "+strings.Join(facts, " ")+"))")
	// distinctness from other constants follows from contents when lengths/bytes differ
	return t
}

// Query assembly

type Query struct {
	Name    string
	Text    string
	Kind    string
	Props   []string
	Goal    string
	Fn      string
	Expect  string // "unsat" normally; "sat" for vacuity probes
	Info    map[string]string
}

func (m *SMT) header() string {
	var b strings.Builder
	b.WriteString(prelude)
	for _, d := range m.sortsDecl {
		b.WriteString(d)
		b.WriteByte('\n')
	}
	return b.String()
}

func (m *SMT) declText(upto int) string {
	var b strings.Builder
	for i := 0; i < upto && i < len(m.decls); i++ {
		b.WriteString(m.decls[i].Text)
		b.WriteByte('\n')
	}
	return b.String()
}

func sortedKeys[V any](m map[string]V) []string {
	var ks []string
	for k := range m {
		ks = append(ks, k)
	}
	sort.Strings(ks)
	return ks
}
