package main

import (
	"os"
	"fmt"
	"go/ast"
	"go/types"
	"sort"

	"golang.org/x/tools/go/ssa"
)

func loopStmtsNode(fd *ast.FuncDecl) []ast.Stmt { return loopStmts(fd) }

func (e *Exec) funcDeclOf(fn *ssa.Function) *ast.FuncDecl {
	if o := fn.Origin(); o != nil {
		fn = o
	}
	if fd, ok := fn.Syntax().(*ast.FuncDecl); ok {
		return fd
	}
	return nil
}

// modSet is the statically computed set of things a loop may modify.
type modSet struct {
	fvs   map[*ssa.FreeVar]bool // captured variables of the function at hand that the loop assigns
	cells map[*ssa.Alloc]bool
	comps map[string]string // heap component -> sort
	all   bool
	iters map[*ssa.Range]bool
}

func (e *Exec) loopMods(fr *frame, li *loopInfo) *modSet {
	ms := &modSet{cells: map[*ssa.Alloc]bool{}, comps: map[string]string{}, iters: map[*ssa.Range]bool{}}
	seen := map[*ssa.Function]bool{}
	var blocks []*ssa.BasicBlock
	for b := range li.blocks {
		blocks = append(blocks, b)
	}
	sort.Slice(blocks, func(i, j int) bool { return blocks[i].Index < blocks[j].Index })
	for _, b := range blocks {
		e.scanMods(fr.fn, b.Instrs, ms, seen, nil)
	}
	for fv := range ms.fvs {
		for i, f := range fr.fn.FreeVars {
			if f == fv && i < len(fr.bindings) {
				if p, ok := fr.bindings[i].(*Ptr); ok && p.Kind == pHeap {
					e.addHeapLeaves(p.Root, p.Path, ms)
				}
			}
		}
	}
	return ms
}

// rootOf walks an address computation back to its root.
func rootOf(v ssa.Value) (root ssa.Value, path []int, viaIndex bool, elemT types.Type) {
	switch x := v.(type) {
	case *ssa.FieldAddr:
		r, p, vi, et := rootOf(x.X)
		return r, append(p, x.Field), vi, et
	case *ssa.IndexAddr:
		var et types.Type
		switch t := x.X.Type().Underlying().(type) {
		case *types.Slice:
			et = t.Elem()
		case *types.Pointer:
			et = t.Elem().Underlying().(*types.Array).Elem()
		}
		return x.X, nil, true, et
	}
	return v, nil, false, nil
}

func (e *Exec) addCompsForAddr(addr ssa.Value, ms *modSet, bind map[*ssa.FreeVar]ssa.Value) {
	root, path, viaIndex, et := rootOf(addr)
	if viaIndex {
		// element store: element component(s) below path
		lt := typeAtPath(et, path)
		for _, l := range leaves(lt) {
			name, s := e.ti.elemComp(et, append(append([]int{}, path...), l.path...))
			ms.comps[name] = arraySort(SInt, arraySort(SInt, s))
		}
		return
	}
	if fv, ok := root.(*ssa.FreeVar); ok {
		if bv, ok2 := bind[fv]; ok2 {
			root = bv
		} else {
			// a captured variable of the closure under execution: resolved against the frame's bindings
			if ms.fvs == nil {
				ms.fvs = map[*ssa.FreeVar]bool{}
			}
			ms.fvs[fv] = true
			if len(path) > 0 {
				if pt, ok := fv.Type().Underlying().(*types.Pointer); ok {
					e.addHeapLeaves(pt.Elem(), path, ms)
				}
			}
			return
		}
	}
	switch r := root.(type) {
	case *ssa.Alloc:
		if isCellAlloc(r) {
			ms.cells[r] = true
			return
		}
		// heap object of known type
		ot := r.Type().(*types.Pointer).Elem()
		e.addHeapLeaves(ot, path, ms)
		return
	case *ssa.Global:
		return
	}
	// pointer value from elsewhere: root type is the pointee
	pt, ok := root.Type().Underlying().(*types.Pointer)
	if !ok {
		ms.all = true
		return
	}
	e.addHeapLeaves(pt.Elem(), path, ms)
}

func (e *Exec) addHeapLeaves(ot types.Type, path []int, ms *modSet) {
	lt := typeAtPath(ot, path)
	if _, isStruct := ot.Underlying().(*types.Struct); isStruct {
		for _, l := range leaves(lt) {
			name, s := e.ti.fieldComp(ot, append(append([]int{}, path...), l.path...))
			ms.comps[name] = arraySort(SInt, s)
		}
		return
	}
	name, s := e.ti.cellComp(ot)
	ms.comps[name] = arraySort(SInt, s)
}

func (e *Exec) scanMods(fn *ssa.Function, instrs []ssa.Instruction, ms *modSet, seen map[*ssa.Function]bool, bind map[*ssa.FreeVar]ssa.Value) {
	for _, in := range instrs {
		switch x := in.(type) {
		case *ssa.Store:
			e.addCompsForAddr(x.Addr, ms, bind)
		case *ssa.MapUpdate:
			mc := e.mapComps(x.Map.Type().Underlying().(*types.Map))
			ms.comps[mc.dom] = arraySort(SInt, mc.domSort)
			ms.comps[mc.val] = arraySort(SInt, mc.valSort)
			ms.comps[mc.card] = arraySort(SInt, SInt)
		case *ssa.Next:
			if r, ok := x.Iter.(*ssa.Range); ok {
				ms.iters[r] = true
			}
		case *ssa.Call:
			e.scanCallMods(fn, &x.Call, ms, seen, bind)
		case *ssa.Defer:
			e.scanCallMods(fn, &x.Call, ms, seen, bind)
		case *ssa.MakeChan:
			ms.comps["G.ghost_closed"] = arraySort(SInt, SBool)
		case *ssa.Send:
			ms.comps["G.ghost_nsent"] = arraySort(SInt, SInt)
		case *ssa.Select:
		}
	}
}

func (e *Exec) scanCallMods(fn *ssa.Function, c *ssa.CallCommon, ms *modSet, seen map[*ssa.Function]bool, bind map[*ssa.FreeVar]ssa.Value) {
	if b, ok := c.Value.(*ssa.Builtin); ok {
		switch b.Name() {
		case "append", "copy":
			if sl, ok := c.Args[0].Type().Underlying().(*types.Slice); ok {
				for _, l := range leaves(sl.Elem()) {
					name, s := e.ti.elemComp(sl.Elem(), l.path)
					ms.comps[name] = arraySort(SInt, arraySort(SInt, s))
				}
			}
		case "delete":
			mc := e.mapComps(c.Args[0].Type().Underlying().(*types.Map))
			ms.comps[mc.dom] = arraySort(SInt, mc.domSort)
			ms.comps[mc.card] = arraySort(SInt, SInt)
		case "close":
			ms.comps["G.ghost_closed"] = arraySort(SInt, SBool)
		}
		return
	}
	var ct *Contract
	var callee *ssa.Function
	if c.IsInvoke() {
		if n, ok := c.Value.Type().(*types.Named); ok && n.Obj().Pkg() != nil {
			ct = e.cs.ByKey["iface:"+n.Obj().Pkg().Path()+"."+n.Obj().Name()+"."+c.Method.Name()]
		}
		if ct == nil {
			if types.Identical(c.Value.Type(), errorType) {
				return
			}
			ms.all = true
			return
		}
	} else {
		callee = c.StaticCallee()
		if callee == nil {
			// closure value or dynamic
			if mc, ok := c.Value.(*ssa.MakeClosure); ok {
				callee = mc.Fn.(*ssa.Function)
				nb := map[*ssa.FreeVar]ssa.Value{}
				for i, fv := range callee.FreeVars {
					nb[fv] = mc.Bindings[i]
				}
				if !seen[callee] {
					seen[callee] = true
					for _, b := range callee.Blocks {
						e.scanMods(callee, b.Instrs, ms, seen, nb)
					}
				}
				return
			}
			ms.all = true
			return
		}
		ct = e.cs.ByKey[fnKey(callee)]
	}
	if ct != nil && !ct.Inline {
		if g := ct.Attrs["result-ghost"]; g != "" {
			ms.comps["G."+g] = arraySort(SInt, SInt)
		}
		if g := ct.Attrs["log-count"]; g != "" {
			ms.comps["G."+g] = arraySort(SInt, SInt)
			if ga := ct.Attrs["log-arg"]; ga != "" {
				ms.comps["G."+ga] = arraySort(SInt, arraySort(SInt, SInt))
			}
		}
		if ct.ModFn != "" {
			pk := e.w.Pkgs[ct.PkgPath]
			if mf := pk.SSA.Func(ct.ModFn); mf != nil {
				for _, b := range mf.Blocks {
					for _, in := range b.Instrs {
						if cc, ok := in.(*ssa.Call); ok {
							if sc := cc.Call.StaticCallee(); sc != nil {
								nm := sc.Name()
								if o := sc.Origin(); o != nil {
									nm = o.Name()
								}
								switch nm {
								case "vcMod1":
									e.addCompsForAddr(cc.Call.Args[0], ms, nil)
								case "vcModElems":
									if sl, ok := cc.Call.Args[0].Type().Underlying().(*types.Slice); ok {
										for _, l := range leaves(sl.Elem()) {
											name, s := e.ti.elemComp(sl.Elem(), l.path)
											ms.comps[name] = arraySort(SInt, arraySort(SInt, s))
										}
									}
								case "vcModGhostAll":
									if cst, ok := cc.Call.Args[0].(*ssa.Const); ok {
										gn := ghostCanon(constantString(cst))
										ms.comps["G."+gn] = arraySort(e.ghostIdxOf(gn), e.ghostSortOf(gn))
									}
								case "vcModGhost":
									if cst, ok := cc.Call.Args[0].(*ssa.Const); ok {
										gn := ghostCanon(constantString(cst))
										ms.comps["G."+gn] = arraySort(e.ghostIdxOf(gn), e.ghostSortOf(gn))
									}
								case "vcModMap":
									mc := e.mapComps(cc.Call.Args[0].Type().Underlying().(*types.Map))
									ms.comps[mc.dom] = arraySort(SInt, mc.domSort)
									ms.comps[mc.val] = arraySort(SInt, mc.valSort)
									ms.comps[mc.card] = arraySort(SInt, SInt)
								}
							}
						}
					}
				}
			}
		}
		for _, m := range ct.Modifies {
			if m == "*" {
				ms.all = true
			}
		}
		return
	}
	if callee == nil {
		return
	}
	nm := callee.Name()
	if o := callee.Origin(); o != nil {
		nm = o.Name()
	}
	if isIntrinsic(nm) {
		return
	}
	if callee.Blocks != nil && (isRepoFn(callee) || callee.Synthetic != "") {
		if (ct != nil && ct.Inline) || callee.Parent() != nil || callee.Synthetic != "" {
			if !seen[callee] {
				seen[callee] = true
				for _, b := range callee.Blocks {
					e.scanMods(callee, b.Instrs, ms, seen, nil)
				}
			}
			return
		}
		if (len(nm) > 5 && (nm[:5] == "spec_" || nm[:5] == "Spec_")) || e.cs.Preds[fnKey(callee)] {
			return
		}
	}
	if fnKey(callee) == "sort.Slice" {
		// element components of every slice type may change: conservatively everything of sort-able kinds
		ms.all = true
		return
	}
	if fnKey(callee) == "fmt.Fprint" {
		ms.comps["G.ghost_nwrites"] = arraySort(SInt, SInt)
		return
	}
	if e.isIgnoredExt(callee) || e.isPureExtBuiltin(callee) {
		return
	}
	// unknown callee: everything may change
	ms.all = true
}

func isIntrinsic(nm string) bool {
	switch nm {
	case "specAssert", "specAssume", "vcForall", "vcExists", "vcTrigger1", "vcTrigger2", "vcTrigger3", "vcOldBegin", "vcOld", "vcMod1", "vcModElems", "vcModMap", "vcFresh", "vcByteStr", "vcModGhost", "vcModGhostAll", "vcSameSlice", "vcElemsOf", "vcOff", "vcSeqAt", "vcIte", "vcMapSeq", "vcHas", "vcIn", "vcSameMap", "vcTokBytes", "vcTokStr", "vcTokCat", "vcTokEmpty":
		return true
	}
	return false
}

// namedLocal finds the value of the source variable `name` in the frame.
func (e *Exec) namedLocal(fr *frame, st *State, name string, li *loopInfo) (Value, bool) {
	if name == "ridx" {
		// rangeindex cell stored in the header block
		for _, in := range li.head.Instrs {
			if s, ok := in.(*ssa.Store); ok {
				if a, ok2 := s.Addr.(*ssa.Alloc); ok2 && a.Comment == "rangeindex" {
					if p, ok3 := fr.vals[a].(*Ptr); ok3 {
						v := e.load(st, p).(Term)
						return tAdd(v, tInt(1)), true
					}
				}
			}
			if n, ok := in.(*ssa.Next); ok {
				if r, ok2 := n.Iter.(*ssa.Range); ok2 && n.IsString {
					return st.cells[fr.iterPos[r]], true
				}
				if r, ok2 := n.Iter.(*ssa.Range); ok2 && !n.IsString {
					if cc := fr.iterCount[r]; cc != nil {
						return st.cells[cc], true
					}
				}
			}
		}
		// the range loop the clause was written for is now an index loop: ridx is its index variable
		if fr.c != nil && li != nil {
			if nm, ok := fr.c.RidxVar[li.ord]; ok {
				return e.namedLocal(fr, st, nm, li)
			}
		}
		return nil, false
	}
	if name == "rvisited" {
		for _, in := range li.head.Instrs {
			if n, ok := in.(*ssa.Next); ok && !n.IsString {
				if r, ok2 := n.Iter.(*ssa.Range); ok2 {
					return st.cells[fr.iterPos[r]], true
				}
			}
		}
		return nil, false
	}
	if len(name) > 3 && name[:3] == "in_" {
		for i, p := range fr.fn.Params {
			if p.Name() == name[3:] && i < len(fr.args) {
				return fr.args[i], true
			}
		}
		return nil, false
	}
	if fr.c != nil {
		if cur, ok := fr.c.NameAlias[name]; ok {
			name = cur
		}
	}
	var best *ssa.Alloc
	consider := func(a *ssa.Alloc) {
		if a.Comment != name {
			return
		}
		if _, ok := fr.vals[a]; !ok {
			return
		}
		if best == nil || a.Pos() > best.Pos() {
			best = a
		}
	}
	for _, b := range fr.fn.Blocks {
		for _, in := range b.Instrs {
			if a, ok := in.(*ssa.Alloc); ok {
				consider(a)
			}
		}
	}
	if best == nil && fr.c != nil {
		// renamed since the contract was written: the recorded type and ordinal find the local again
		if lb, ok := fr.c.LocalAlias[name]; ok {
			if a := allocByBinding(fr.fn, lb); a != nil {
				if _, ok := fr.vals[a]; ok {
					best = a
				}
			}
		}
	}
	if best == nil {
		// captured variable of a closure
		for i, fv := range fr.fn.FreeVars {
			if fv.Name() == name && i < len(fr.bindings) {
				if p, ok := fr.bindings[i].(*Ptr); ok {
					return e.load(st, p), true
				}
			}
		}
		return nil, false
	}
	p := fr.vals[best].(*Ptr)
	if os.Getenv("GOVC_DEBUG") != "" && p.Kind == pCell {
		_, has := st.cells[p.Cell]
		fmt.Fprintf(os.Stderr, "  namedLocal %s: cell %s id=%d present=%v ncells=%d\n", name, p.Cell.name, p.Cell.id, has, len(st.cells))
	}
	return e.load(st, p), true
}

func (e *Exec) clauseArgs(fr *frame, st *State, cl *Clause, li *loopInfo) ([]Value, bool) {
	var args []Value
	for _, n := range cl.Locals {
		v, ok := e.namedLocal(fr, st, n, li)
		if !ok {
			e.unsupported("loop clause at %s refers to %q which is not a live local at the loop head", cl.Line, n)
			return nil, false
		}
		args = append(args, v)
	}
	return args, true
}

func (e *Exec) loopClauses(c *Contract, li *loopInfo) []*Clause {
	if c == nil {
		return nil
	}
	return c.Loops[li.ord]
}

// loopHead implements the cut: assert invariants (init), havoc, assume invariants.
func (e *Exec) loopHead(fr *frame, st *State, li *loopInfo, c *Contract, setVariants func([]Term)) *State {
	clauses := e.loopClauses(c, li)
	entry := fr.entryState
	where := fmt.Sprintf("loop %d of %s", li.ord, fr.fn.Name())
	if c == nil || len(clauses) == 0 {
		if e.spec == 0 {
			e.note(fmt.Sprintf("loop %d of %s has no invariant (state it modifies is havocked)", li.ord, shortKey(fnKey(fr.fn))))
		}
	}
	for i, cl := range clauses {
		if cl.Kind != "invariant" || cl.GenFn == "" {
			continue
		}
		if cl.Assumed {
			// an assumed loop fact: taken for granted at the loop head, never checked (trusted base)
			e.trusted(fmt.Sprintf("assumed fact at loop %d of %s: %s", li.ord, shortKey(c.Key), oneLine(cl.Expr)))
			continue
		}
		args, ok := e.clauseArgs(fr, st, cl, li)
		if !ok {
			continue
		}
		g, ok := e.evalSpec(st, c.PkgPath, cl.GenFn, args, entry)
		if ok {
			n0 := len(e.obls)
			e.oblige(st, "inv.init", fmt.Sprintf("inv.init.%d.%s", li.ord, clauseName(cl, i)), g, where)
			if tp := taggedWith(c, cl.Props); len(tp) > 0 && len(e.obls) > n0 {
				e.obls[len(e.obls)-1].Props = tp
			}
		}
	}
	// havoc
	ms := e.loopMods(fr, li)
	st = st.clone()
	if ms.all {
		e.note(fmt.Sprintf("loop %d of %s calls code without a frame: whole heap havocked", li.ord, shortKey(fnKey(fr.fn))))
		// touch: every component known so far
		e.havocAllHeap(st)
	}
	// earlier iterations may have allocated: the allocation counter is arbitrary (not smaller) at the head —
	// before the havocked locals are constrained to be well-typed, so that they may refer to such objects
	na := e.smt.fresh("alloc", SInt)
	e.assume(st, tLe(st.alloc, na))
	st.alloc = na
	var allocs []*ssa.Alloc
	for a := range ms.cells {
		allocs = append(allocs, a)
	}
	sort.Slice(allocs, func(i, j int) bool { return allocs[i].Pos() < allocs[j].Pos() || (allocs[i].Pos() == allocs[j].Pos() && allocs[i].Name() < allocs[j].Name()) })
	for _, a := range allocs {
		cell := fr.cells[a]
		if cell == nil {
			continue // declared inside the loop
		}
		cur, ok := st.cells[cell]
		if ok {
			if _, isTerm := cur.(Term); !isTerm {
				e.unsupported("loop modifies non-scalar local %s", a.Comment)
				continue
			}
		}
		v := e.smt.fresh(cell.name, e.ti.sortOf(cell.typ))
		st.cells[cell] = v
		e.assume(st, e.wellTypedDeep(st, cell.typ, v))
	}
	var fvl []*ssa.FreeVar
	for fv := range ms.fvs {
		fvl = append(fvl, fv)
	}
	sort.Slice(fvl, func(i, j int) bool { return fvl[i].Name() < fvl[j].Name() })
	for _, fv := range fvl {
		for i, f := range fr.fn.FreeVars {
			if f != fv || i >= len(fr.bindings) {
				continue
			}
			p, ok := fr.bindings[i].(*Ptr)
			if !ok || p.Kind != pCell || len(p.Path) != 0 {
				continue
			}
			if cur, ok := st.cells[p.Cell]; ok {
				if _, isTerm := cur.(Term); !isTerm {
					e.unsupported("loop modifies non-scalar captured variable %s", fv.Name())
					continue
				}
			}
			v := e.smt.fresh(p.Cell.name, e.ti.sortOf(p.Cell.typ))
			st.cells[p.Cell] = v
			e.assume(st, e.wellTypedDeep(st, p.Cell.typ, v))
		}
	}
	for _, k := range sortedKeys(ms.comps) {
		st.heap[k] = e.smt.fresh("H."+k, ms.comps[k])
		// implicit frame invariant: outside the function's modifies set nothing changed since entry
		if !e.topStar && e.entry != nil && e.spec == 0 {
			ot := e.heapComp(e.entry, k, SInt, ms.comps[k])
			if g, ok := e.frameFormula(k, ot, st.heap[k], e.topMods, e.entry.alloc); ok {
				e.assume(st, g)
			}
		}
	}
	for r := range ms.iters {
		if cc := fr.iterCount[r]; cc != nil {
			nv := e.smt.fresh("itercount", SInt)
			st.cells[cc] = nv
			e.assume(st, tLe(tInt(0), nv))
		}
		if cell := fr.iterPos[r]; cell != nil {
			cur := st.cells[cell].(Term)
			nv := e.smt.fresh("iter", cur.Sort)
			st.cells[cell] = nv
			if cur.Sort == SInt {
				s := e.asTerm(st, fr.iterOf[r], r.X.Type())
				e.assume(st, tAnd(tLe(tInt(0), nv), tLe(nv, app(SInt, "slen", s))))
			}
		}
	}
	var variants []Term
	for _, cl := range clauses {
		if cl.GenFn == "" || cl.Kind == "after" {
			continue
		}
		args, ok := e.clauseArgs(fr, st, cl, li)
		if !ok {
			continue
		}
		g, ok := e.evalSpec(st, c.PkgPath, cl.GenFn, args, entry)
		if !ok {
			continue
		}
		if cl.Kind == "invariant" {
			// an invariant stated for property P in a function with a precondition stated for P rests on it:
			// known (and, below, checked) in P's run only
			e.curAssumeProps = taggedWith(c, cl.Props)
			e.assume(st, g)
			e.curAssumeProps = nil
		} else if cl.Kind == "decreases" {
			variants = append(variants, e.smt.define("variant", g))
		}
	}
	setVariants(variants)
	// vacuity probe: the invariants together with the path condition must be satisfiable
	e.probe(st, fmt.Sprintf("vacuity.loop%d", li.ord), where)
	return st
}

func (e *Exec) backEdge(fr *frame, st *State, li *loopInfo, c *Contract, variants []Term) {
	clauses := e.loopClauses(c, li)
	entry := fr.entryState
	where := fmt.Sprintf("loop %d of %s", li.ord, fr.fn.Name())
	if fr.curBlock != nil {
		for i := len(fr.curBlock.Instrs) - 1; i >= 0; i-- {
			if p := fr.curBlock.Instrs[i].Pos(); p.IsValid() {
				where += " (back edge from " + e.pos(p) + ")"
				break
			}
		}
	}
	if !e.topStar && e.entry != nil && e.spec == 0 {
		ms := e.loopMods(fr, li)
		for _, k := range sortedKeys(ms.comps) {
			ot := e.heapComp(e.entry, k, SInt, ms.comps[k])
			nt := e.heapComp(st, k, SInt, ms.comps[k])
			if nt.S == ot.S {
				continue
			}
			if g, ok := e.frameFormula(k, ot, nt, e.topMods, e.entry.alloc); ok {
				e.oblige(st, "inv.preserve", fmt.Sprintf("inv.preserve.%d.frame.%s", li.ord, k), g, where)
			}
		}
	}
	vi := 0
	for i, cl := range clauses {
		if cl.GenFn == "" || cl.Kind == "after" {
			continue
		}
		args, ok := e.clauseArgs(fr, st, cl, li)
		if !ok {
			continue
		}
		g, ok := e.evalSpec(st, c.PkgPath, cl.GenFn, args, entry)
		if !ok {
			continue
		}
		if cl.Kind == "invariant" {
			if cl.Assumed {
				continue
			}
			n0 := len(e.obls)
			e.oblige(st, "inv.preserve", fmt.Sprintf("inv.preserve.%d.%s", li.ord, clauseName(cl, i)), g, where)
			if tp := taggedWith(c, cl.Props); len(tp) > 0 && len(e.obls) > n0 {
				e.obls[len(e.obls)-1].Props = tp
			}
		} else if cl.Kind == "decreases" && vi < len(variants) {
			v0 := variants[vi]
			vi++
			e.oblige(st, "decreases", fmt.Sprintf("decreases.%d", li.ord), tAnd(tLe(tInt(0), v0), tLt(g, v0)), where)
		}
	}
}

// wellTypedDeep: like wellTyped, for struct-typed cells field-wise.
func (e *Exec) wellTypedDeep(st *State, t types.Type, v Term) Term {
	if stt, ok := t.Underlying().(*types.Struct); ok {
		var cs []Term
		for i := 0; i < stt.NumFields(); i++ {
			ft := stt.Field(i).Type()
			cs = append(cs, e.wellTypedDeep(st, ft, app(e.ti.sortOf(ft), e.ti.fieldAcc(t, i), v)))
		}
		return tAnd(cs...)
	}
	return e.wellTyped(st, t, v)
}

func (e *Exec) note(s string) {
	for _, n := range e.notes {
		if n == s {
			return
		}
	}
	e.notes = append(e.notes, s)
}

// probe adds a vacuity probe: assumptions /\ pc must not be refutable.
func (e *Exec) probe(st *State, name, where string) {
	if e.spec > 0 || e.quant > 0 {
		return
	}
	full := e.fnKeyShort() + "/" + name
	e.oblNames[full]++
	if n := e.oblNames[full]; n > 1 {
		full = fmt.Sprintf("%s#%d", full, n)
	}
	e.obls = append(e.obls, &Obligation{Name: full, Kind: "vacuity", Fn: e.fnKey, Props: e.props, PC: st.pc, Goal: tFalse,
		NAssume: len(e.assumptions), NDecl: len(e.smt.decls), Where: where, Expect: "sat"})
}

// ghostSortOf finds the declared ghost function by name in any package and returns its result sort.
func (e *Exec) ghostSortOf(name string) string {
	if s, ok := e.ghostSorts[name]; ok {
		return s
	}
	for _, pk := range e.w.Pkgs {
		if pk.SSA == nil {
			continue
		}
		if fn := pk.SSA.Func(name); fn != nil {
			s := e.ti.sortOf(fn.Signature.Results().At(0).Type())
			e.ghostSorts[name] = s
			return s
		}
	}
	e.unsupported("ghost function %s is not declared", name)
	return SInt
}

// loopExit checks the `after` clauses of a loop on one of its exit edges.
func (e *Exec) loopExit(fr *frame, st *State, li *loopInfo, c *Contract) {
	for i, cl := range e.loopClauses(c, li) {
		if cl.Kind != "after" || cl.GenFn == "" {
			continue
		}
		args, ok := e.clauseArgs(fr, st, cl, li)
		if !ok {
			continue
		}
		g, ok := e.evalSpec(st, c.PkgPath, cl.GenFn, args, fr.entryState)
		if ok {
			if cl.Assumed {
				e.trusted(fmt.Sprintf("assumed fact at the exit of loop %d of %s: %s", li.ord, shortKey(c.Key), oneLine(cl.Expr)))
			} else {
				e.oblige(st, "loop.after", fmt.Sprintf("loop.after.%d.%s", li.ord, clauseName(cl, i)), g, fmt.Sprintf("exit of loop %d of %s", li.ord, fr.fn.Name()))
			}
			e.assume(st, g)
		}
	}
}

func (e *Exec) ghostIdxOf(name string) string {
	if s, ok := e.ghostIdx[name]; ok {
		return s
	}
	for _, pk := range e.w.Pkgs {
		if pk.SSA == nil {
			continue
		}
		if fn := pk.SSA.Func(name); fn != nil && fn.Signature.Params().Len() > 0 {
			s := e.ti.sortOf(fn.Signature.Params().At(0).Type())
			e.ghostIdx[name] = s
			return s
		}
	}
	return SInt
}
