package main

import (
	"fmt"
	"go/types"
	"strings"

	"golang.org/x/tools/go/ssa"
)

// Behavioural subtyping: callers of an interface method are verified against the `iface` contract,
// implementations against their own contracts.  For every implementation in the repository whose
// method has a contract, the implementation's contract must refine the interface contract:
//   iface.requires  ==>  impl.requires                      (refine: pre.k@impl)
//   impl.ensures    ==>  iface.ensures   (in the state the impl contract describes: refine.post.*)
//   impl.modifies   within iface.modifies                    (refine: frame.*)
// The check is a modular call of the implementation's contract from a context that knows only the
// interface contract's precondition.

type refinePair struct {
	ict, cct *Contract
	fn       *ssa.Function
}

func refinePairs(w *World, cs *ContractSet, prop string) []refinePair {
	var out []refinePair
	for _, ict := range cs.List {
		if ict.Kind != "iface" || ict.Pure {
			continue
		}
		// key: iface:<pkgpath>.<Type>.<Method>
		k := strings.TrimPrefix(ict.Key, "iface:")
		i := strings.LastIndex(k, ".")
		if i < 0 {
			continue
		}
		meth := k[i+1:]
		tn := k[:i]
		j := strings.LastIndex(tn, ".")
		if j < 0 {
			continue
		}
		pkgPath, typeName := tn[:j], tn[j+1:]
		pk := w.Pkgs[pkgPath]
		if pk == nil || pk.Types == nil || !strings.HasPrefix(pkgPath, repoModule) {
			continue
		}
		obj := pk.Types.Scope().Lookup(typeName)
		if obj == nil {
			continue
		}
		it, ok := obj.Type().Underlying().(*types.Interface)
		if !ok {
			continue
		}
		for _, cct := range cs.List {
			if cct.Kind != "func" || (cct.Inline && len(cct.Ensures) == 0) {
				continue
			}
			if !strings.HasSuffix(cct.Key, ")."+meth) {
				continue
			}
			if !has(cct.Serves, prop) && !has(ict.Serves, prop) {
				continue
			}
			fn := w.lookupFn(cct)
			if fn == nil || fn.Signature.Recv() == nil {
				continue
			}
			if !types.Implements(fn.Signature.Recv().Type(), it) {
				continue
			}
			out = append(out, refinePair{ict, cct, fn})
		}
	}
	return out
}

func VerifyRefine(w *World, cs *ContractSet, rp refinePair, prop string) *FuncResult {
	ict, cct, fn := rp.ict, rp.cct, rp.fn
	key := "refine:" + shortKey(cct.Key) + "<:" + shortKey(strings.TrimPrefix(ict.Key, "iface:"))
	res := &FuncResult{Key: key, Kind: "refine", Props: []string{prop}}
	e := newExec(w, cs, key, []string{prop})
	res.Exec = e
	defer func() {
		if r := recover(); r != nil {
			res.Errs = append(res.Errs, fmt.Sprintf("engine panic: %v", r))
			res.Obls = e.obls
			if debugPanic {
				panic(r)
			}
		}
	}()
	st := &State{pc: tTrue, cells: map[*Cell]Value{}, heap: map[string]Term{}, locks: map[string]int{}}
	st.alloc = e.smt.fresh("alloc0", SInt)
	e.entryAlloc = st.alloc
	e.assumeGlobal(tLe(tInt(0), st.alloc))
	var args []Value
	for _, p := range fn.Params {
		v := e.smt.fresh("in."+p.Name(), e.ti.sortOf(p.Type()))
		e.assume(st, e.wellTypedDeep(st, p.Type(), v))
		args = append(args, v)
	}
	if len(args) == 0 {
		res.Errs = append(res.Errs, "method without receiver")
		return res
	}
	if _, isPtr := fn.Signature.Recv().Type().Underlying().(*types.Pointer); isPtr {
		e.assume(st, tNot(tEq(args[0].(Term), tInt(0))))
	}
	self := e.makeInterface(st, args[0], fn.Signature.Recv().Type())
	iargs := append([]Value{self}, args[1:]...)
	for _, cl := range ict.Requires {
		if cl.GenFn == "" {
			continue
		}
		if g, ok := e.evalSpec(st, ict.PkgPath, cl.GenFn, iargs, st); ok {
			e.assume(st, g)
		}
	}
	entry := st.clone()
	e.entry = entry
	e.topArgs = iargs
	e.topCt = ict
	imods, istar := e.collectMods(st, ict, iargs)
	e.topMods, e.topStar = imods, istar
	e.curFrame, e.curCall = nil, nil
	// the implementation's preconditions beyond the interface's are its object invariant (established
	// by its constructor, re-established by each of its methods: their own postconditions): assumed here
	e.trusted("refinement: the preconditions of " + shortKey(cct.Key) + " are taken as the object invariant of its receiver")
	for _, cl := range cct.Requires {
		if cl.GenFn == "" {
			continue
		}
		if g, ok := e.evalSpec(st, cct.PkgPath, cl.GenFn, args, st); ok {
			e.assume(st, g)
		}
	}
	e.probe(st, "vacuity.pre", "entry")
	n0 := len(e.obls)
	rv, ok := e.modularCall(st, cct, fn.Signature, args, "refinement of "+shortKey(strings.TrimPrefix(ict.Key, "iface:")), shortKey(cct.Key))
	if !ok {
		res.Errs = append(res.Errs, "implementation contract could not be applied")
		return res
	}
	// (the pre.* obligations of that call are implied by the assumption just made)
	kept := e.obls[:n0]
	for _, o := range e.obls[n0:] {
		if o.Kind != "pre" {
			kept = append(kept, o)
		}
	}
	e.obls = kept
	rvals := unwrapResults(rv, fn.Signature.Results().Len())
	all := append(append([]Value{}, iargs...), rvals...)
	for i, cl := range ict.Ensures {
		if cl.GenFn == "" || cl.Label == "onpanic" {
			continue
		}
		if strings.Contains(cl.Expr, "ghost_") || strings.Contains(cl.Expr, "Ghost_") {
			// clauses about the ghost call log are maintained by the call-site semantics of the interface
			// contract, not by implementations
			continue
		}
		if g, ok := e.evalSpec(st, ict.PkgPath, cl.GenFn, all, entry); ok {
			e.oblige(st, "refine", "refine.post."+clauseName(cl, i), g, cl.Line)
		}
	}
	// frames are not compared: the state an implementation changes is its own representation, which
	// clients of the interface cannot observe (recorded as an assumption)
	_ = imods
	_ = istar
	e.trusted("refinement: the implementation's own representation is invisible to clients of the interface (frames not compared)")
	e.probe(st, "vacuity.exit", "exit")
	res.Obls = e.obls
	res.Errs = append(res.Errs, e.errs...)
	res.Trust = e.trust
	res.Notes = e.notes
	return res
}
