package main

import (
	"bufio"
	"encoding/json"
	"flag"
	"fmt"
	"os"
	"path/filepath"
	"runtime"
	"sort"
	"strconv"
	"strings"
	"sync"
	"time"
)

type knownFinding struct {
	Prop string
	Obl  string
	Text string
}

func readKnown(path string) ([]knownFinding, []string) {
	var ks []knownFinding
	var fixed []string
	f, err := os.Open(path)
	if err != nil {
		return nil, nil
	}
	defer f.Close()
	sc := bufio.NewScanner(f)
	for sc.Scan() {
		l := strings.TrimSpace(sc.Text())
		if strings.HasPrefix(l, "fixed:") {
			fixed = append(fixed, l)
			continue
		}
		if !strings.HasPrefix(l, "known:") {
			continue
		}
		k := knownFinding{}
		rest := strings.TrimSpace(l[6:])
		for _, f := range strings.Fields(rest) {
			if strings.HasPrefix(f, "property=") {
				k.Prop = f[9:]
			} else if strings.HasPrefix(f, "obligation=") {
				k.Obl = f[11:]
			}
		}
		if i := strings.Index(rest, " -- "); i >= 0 {
			k.Text = strings.TrimSpace(rest[i+4:])
		}
		ks = append(ks, k)
	}
	return ks, fixed
}

func readRequired(path string) []string {
	var out []string
	b, err := os.ReadFile(path)
	if err != nil {
		return nil
	}
	for _, l := range strings.Split(string(b), "\n") {
		l = strings.TrimSpace(l)
		if l == "" || strings.HasPrefix(l, "#") {
			continue
		}
		out = append(out, l)
	}
	return out
}

func has(xs []string, x string) bool {
	for _, y := range xs {
		if x == y {
			return true
		}
	}
	return false
}

type oblReport struct {
	Name   string  `json:"name"`
	Kind   string  `json:"kind"`
	Status string  `json:"status"`
	Solver string  `json:"solver,omitempty"`
	TimeS  float64 `json:"time_s"`
	Where  string  `json:"where,omitempty"`
	Hash   string  `json:"vc_sha256_8,omitempty"`
}

func cmdCheck(args []string) {
	fs := flag.NewFlagSet("check", flag.ExitOnError)
	repo := fs.String("repo", "/repo", "")
	ext := fs.String("ext", "/verif/contracts/ext", "")
	prop := fs.String("prop", "", "property id")
	tier := fs.String("tier", "quick", "")
	work := fs.String("work", "/verif/work", "")
	evdir := fs.String("evidence", "/verif/evidence", "")
	verifDir := fs.String("verif", "/verif", "")
	verbose := fs.Bool("v", false, "")
	noEvidence := fs.Bool("no-evidence", false, "")
	fs.Parse(args)
	if *prop == "" {
		fmt.Fprintln(os.Stderr, "check: -prop required")
		os.Exit(2)
	}
	seed := 0
	if s := os.Getenv("VERIF_SEED"); s != "" {
		if n, err := strconv.Atoi(s); err == nil {
			seed = n
		}
	}
	timeout := 30
	all := false
	if *tier == "thorough" {
		timeout = 120
		all = true
	}
	t0 := time.Now()
	wdir := filepath.Join(*work, *prop+"-"+*tier)
	os.RemoveAll(wdir)
	os.MkdirAll(wdir, 0o755)
	replayDir := filepath.Join(*work, "replay", *prop)
	os.RemoveAll(replayDir)
	os.MkdirAll(replayDir, 0o755)

	violations := 0
	report := func(name, body string, noInput bool) {
		violations++
		fn := filepath.Join(replayDir, smtIdent(name)+".txt")
		os.WriteFile(fn, []byte(body), 0o644)
		suffix := ""
		if noInput {
			suffix = " no-failing-input-found"
		}
		fmt.Printf("VIOLATION property=%s replay=%s%s\n", *prop, fn, suffix)
	}

	s, err := loadAll(*repo, *ext, []string{"./..."})
	if err != nil {
		// the tree does not load: nothing can be re-established
		fmt.Printf("UNDECIDED reason=load-failure\n%s\n", err)
		report("load", "the repository (with -tags verif) could not be loaded or the contracts could not be bound:\n"+err.Error()+"\nThis is a proof that could not be attempted, not a refutation.\n", true)
		writeEvidenceFail(*evdir, *prop, *tier, seed, time.Since(t0).Seconds(), err.Error(), *noEvidence)
		os.Exit(1)
	}
	loadT := time.Since(t0).Seconds()

	var cts []*Contract
	for _, ct := range s.CS.List {
		if (ct.Kind == "func" || ct.Kind == "lemma") && has(ct.Serves, *prop) && !ct.Trusted && !(ct.Inline && len(ct.Ensures) == 0) {
			cts = append(cts, ct)
		}
	}
	rps := refinePairs(s.W, s.CS, *prop)
	results := make([]*FuncResult, len(cts)+len(rps))
	var wg sync.WaitGroup
	sem := make(chan struct{}, 8)
	for i, ct := range cts {
		i, ct := i, ct
		wg.Add(1)
		sem <- struct{}{}
		go func() {
			defer wg.Done()
			defer func() { <-sem }()
			results[i] = VerifyFunc(s.W, s.CS, ct)
		}()
	}
	for i, rp := range rps {
		i, rp := i, rp
		wg.Add(1)
		sem <- struct{}{}
		go func() {
			defer wg.Done()
			defer func() { <-sem }()
			results[len(cts)+i] = VerifyRefine(s.W, s.CS, rp, *prop)
		}()
	}
	wg.Wait()
	genT := time.Since(t0).Seconds() - loadT

	// solve
	type job struct {
		r *FuncResult
		o *Obligation
	}
	var jobs []job
	for _, r := range results {
		if r.Exec != nil {
			r.Exec.runProp = *prop
		}
		for _, o := range r.Obls {
			if has(o.Props, *prop) {
				jobs = append(jobs, job{r, o})
			}
		}
	}
	srs := make([]*SolveResult, len(jobs))
	sem2 := make(chan struct{}, solverPar())
	for i, j := range jobs {
		i, j := i, j
		wg.Add(1)
		sem2 <- struct{}{}
		go func() {
			defer wg.Done()
			defer func() { <-sem2 }()
			to := timeout
			if j.o.Expect == "sat" {
				to = 2
			}
			srs[i] = solveOne(j.r.Exec, j.o, wdir, to, seed, all)
		}()
	}
	wg.Wait()

	known, fixed := readKnown(filepath.Join(*verifDir, "known_findings.txt"))
	isKnown := func(obl string) *knownFinding {
		for i := range known {
			if known[i].Prop == *prop && (known[i].Obl == obl || strings.HasPrefix(obl, known[i].Obl+"@r")) {
				return &known[i]
			}
		}
		return nil
	}
	knownHit := map[string]bool{}

	// tally
	nObl, nDis, nKnownObl := 0, 0, 0
	byKind := map[string]int{}
	bySolver := map[string]int{}
	solverTime := 0.0
	var reports []oblReport
	var undecided []string
	oblSeen := map[string]bool{}
	for i, sr := range srs {
		o := jobs[i].o
		oblSeen[o.Name] = true
		if k := strings.Index(o.Name, "@r"); k > 0 && strings.Contains(o.Name, "/post.") {
			oblSeen[o.Name[:k]] = true
		}
		rep := oblReport{Name: o.Name, Kind: o.Kind, Status: sr.Status, Solver: sr.Solver, TimeS: sr.Time, Where: o.Where, Hash: sr.Hash}
		reports = append(reports, rep)
		solverTime += sr.Time
		if o.Kind == "vacuity" {
			if sr.Status == "vacuous" {
				report(o.Name, fmt.Sprintf("obligation: %s\nThe assumptions at this point (preconditions, invariants, assumed contracts) are contradictory: `false` is provable.\nEvery obligation after this point would hold vacuously.\nVC file: %s\nsolver answers: %v\n", o.Name, sr.File, sr.Answers), true)
			}
			continue
		}
		nObl++
		byKind[o.Kind]++
		switch sr.Status {
		case "discharged":
			nDis++
			bySolver[sr.Solver]++
		default:
			if k := isKnown(o.Name); k != nil {
				nKnownObl++
				nObl--
				byKind[o.Kind]--
				if !knownHit[o.Name] {
					knownHit[o.Name] = true
					fmt.Printf("KNOWN-FINDING: property=%s %s: %s\n", *prop, o.Name, k.Text)
				}
				continue
			}
			undecided = append(undecided, o.Name)
			body := fmt.Sprintf("property: %s\nobligation: %s\nkind: %s\nfunction: %s\nwhere: %s\nstatus: %s\nsolver answers: %v\nVC file: %s (sha256/8 %s)\n\ngoal (under path condition):\n  pc   = %s\n  goal = %s\n",
				*prop, o.Name, o.Kind, o.Fn, o.Where, sr.Status, sr.Answers, sr.File, sr.Hash, firstN(o.PC.S, 2000), firstN(o.Goal.S, 4000))
			noInput := true
			if sr.Status == "refuted" && sr.Model != "" {
				body += "\nsolver model (" + sr.Solver + "):\n" + firstN(sr.Model, 20000) + "\n"
				if rp := tryReplay(s, jobs[i].r, o, sr, replayDir, *repo); rp != "" {
					body += "\n" + rp
					if strings.Contains(rp, "REPLAY-CONFIRMED") {
						noInput = false
					}
				}
			}
			fmt.Printf("FAILED obligation=%s status=%s where=%s\n", o.Name, sr.Status, o.Where)
			if noInput {
				body += "\nNo concrete failing input was obtained: the obligation could not be discharged (it was discharged on the unchanged tree).\n"
			}
			report(o.Name, body, noInput)
		}
	}
	// functions that could not be verified at all
	var fnsUnder []string
	trustSet := map[string]bool{}
	noteSet := map[string]bool{}
	for _, r := range results {
		fnsUnder = append(fnsUnder, shortKey(r.Key))
		for _, t := range r.Trust {
			trustSet[t] = true
		}
		for _, n := range r.Notes {
			noteSet[n] = true
		}
		if r.Lost != "" {
			fmt.Printf("UNDECIDED obligation=%s/* reason=%s\n", shortKey(r.Key), r.Lost)
			report(shortKey(r.Key)+"_lost", fmt.Sprintf("property: %s\nfunction: %s\nThe contract could not be bound to the current tree: %s\nThe obligations of this function can no longer be re-established. This is a proof that could not be attempted, not a refutation.\n", *prop, r.Key, r.Lost), true)
		}
		if len(r.Errs) > 0 {
			kn := isKnown(shortKey(r.Key) + "/unsupported")
			if kn != nil {
				fmt.Printf("KNOWN-FINDING: property=%s %s: %s\n", *prop, shortKey(r.Key)+"/unsupported", kn.Text)
				continue
			}
			fmt.Printf("UNDECIDED obligation=%s/* reason=unsupported construct: %s\n", shortKey(r.Key), strings.Join(r.Errs, "; "))
			report(shortKey(r.Key)+"_unsupported", fmt.Sprintf("property: %s\nfunction: %s\nThe function uses constructs outside the verifier's subset or calls code without a contract:\n  %s\nIts obligations cannot be established. This is a proof that could not be attempted, not a refutation.\n", *prop, r.Key, strings.Join(r.Errs, "\n  ")), true)
		}
	}
	// required obligations
	req := readRequired(filepath.Join(*verifDir, "required", *prop+".txt"))
	for _, rq := range req {
		if !oblSeen[rq] {
			fmt.Printf("UNDECIDED obligation=%s reason=required obligation was not generated\n", rq)
			report(rq+"_missing", fmt.Sprintf("property: %s\nrequired top-level obligation %s was not generated on this tree (contract target or clause missing).\nThis is a proof that could not be attempted, not a refutation.\n", *prop, rq), true)
		}
	}
	if nObl+nKnownObl == 0 {
		report("no-obligations", "no obligations were generated for property "+*prop+" (vacuity guard)\n", true)
	}
	sort.Strings(fnsUnder)
	// bounded stand-ins for functions whose contract is only assumed (never counted as proved)
	bounded := runBounded(*prop, *verifDir, *repo, func(name, body string) { report(name, body, false) })
	wall := time.Since(t0).Seconds()

	// evidence
	if !*noEvidence {
		var samples []interface{}
		for i, r := range reports {
			if r.Kind == "vacuity" {
				continue
			}
			if len(samples) < 40 || i%7 == 0 {
				samples = append(samples, r)
			}
			if len(samples) >= 80 {
				break
			}
		}
		var kf []string
		for k := range knownHit {
			kf = append(kf, k)
		}
		sort.Strings(kf)
		level, explanation := "proof", ""
		if b, err := os.ReadFile(filepath.Join(*verifDir, "levels", *prop+".txt")); err == nil {
			// first line: the level claimed in MANIFEST.json; the rest: what the obligations do and do not establish
			parts := strings.SplitN(string(b), "\n", 2)
			level = strings.TrimSpace(parts[0])
			if len(parts) > 1 {
				explanation = strings.TrimSpace(parts[1])
			}
		}
		ev := map[string]interface{}{
			"property_id": *prop,
			"tier":        *tier,
			"seed":        seed,
			"level":       level,
			"coverage": map[string]interface{}{
				"obligations":               nObl,
				"discharged":                nDis,
				"checker_cmd":               fmt.Sprintf("bin/govc check -prop %s -tier %s  (VC generation over go/ssa of /repo's working tree with -tags verif; obligations raced on z3-new 5.1.0, z3 4.8.12, cvc5 1.0; timeout %ds each)", *prop, *tier, timeout),
				"trusted_base":              sortedKeys(trustSet),
				"functions_under_contract":  fnsUnder,
				"obligations_by_kind":       byKind,
				"discharged_by_solver":      bySolver,
				"solver_time_s":             round2(solverTime),
				"known_finding_obligations": nKnownObl,
				"known_findings_hit":        kf,
				"undischarged":              undecided,
				"vacuity_probes":            countKind(reports, "vacuity"),
				"required_obligations":      req,
				"notes":                     sortedKeys(noteSet),
				"samples":                   samples,
				"integers":                  "mathematical (A-ARITH): overflow not checked; uint8/uint16 arithmetic wraps",
				"load_s":                    round2(loadT),
				"vcgen_s":                   round2(genT),
				"fixed_findings_recorded":   fixed,
				"bounded":                   bounded,
			},
			"assumptions": append([]string{
				"T2: go/packages, go/types, go/ssa represent the compiled program; SMT solvers are sound; govc itself",
				"A-ARITH: integers are mathematical; no overflow checking",
			}, sortedKeys(trustSet)...),
			"wall_s":     round2(wall),
			"violations": violations,
		}
		if explanation != "" {
			ev["coverage"].(map[string]interface{})["explanation"] = explanation
		}
		os.MkdirAll(*evdir, 0o755)
		b, _ := json.MarshalIndent(ev, "", " ")
		os.WriteFile(filepath.Join(*evdir, *prop+".json"), b, 0o644)
	}
	fmt.Printf("property %s: %d obligations, %d discharged, %d covered by known findings, %d functions, %.1fs (load %.1fs)\n", *prop, nObl, nDis, nKnownObl, len(results), wall, loadT)
	if *verbose {
		for _, r := range reports {
			fmt.Printf("  %-12s %-70s %-10s %.2fs\n", r.Status, r.Name, r.Solver, r.TimeS)
		}
	}
	if violations > 0 {
		os.Exit(1)
	}
}

func countKind(rs []oblReport, k string) int {
	n := 0
	for _, r := range rs {
		if r.Kind == k {
			n++
		}
	}
	return n
}

func round2(f float64) float64 { return float64(int(f*100+0.5)) / 100 }

func writeEvidenceFail(dir, prop, tier string, seed int, wall float64, msg string, skip bool) {
	if skip {
		return
	}
	ev := map[string]interface{}{
		"property_id": prop, "tier": tier, "seed": seed, "level": "proof",
		"coverage":    map[string]interface{}{"obligations": 1, "discharged": 0, "checker_cmd": "bin/govc check", "trusted_base": []string{}, "explanation": "load failure: " + msg},
		"assumptions": []string{}, "wall_s": round2(wall), "violations": 1,
	}
	os.MkdirAll(dir, 0o755)
	b, _ := json.MarshalIndent(ev, "", " ")
	os.WriteFile(filepath.Join(dir, prop+".json"), b, 0o644)
}

// tryReplay: see replay.go

// solverPar: obligations solved concurrently (each races three solvers).
func solverPar() int {
	n := runtime.NumCPU() / 2
	if n < 2 {
		n = 2
	}
	if n > 8 {
		n = 8
	}
	return n
}
