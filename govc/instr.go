package main

import (
	"os"
	"fmt"
	"go/constant"
	"go/token"
	"go/types"
	"strings"

	"golang.org/x/tools/go/ssa"
)

func constantBool(c *ssa.Const) bool     { return constant.BoolVal(c.Value) }
func constantString(c *ssa.Const) string { return constant.StringVal(c.Value) }

func isCellAlloc(a *ssa.Alloc) bool {
	if !a.Heap {
		return true
	}
	et := a.Type().(*types.Pointer).Elem()
	switch et.Underlying().(type) {
	case *types.Array:
		return false
	case *types.Struct:
		// a struct whose address is only used for field access / load / store / closure capture stays a cell
		return !addrEscapes(a)
	}
	return !addrEscapes(a)
}

// addrEscapes reports whether the address produced by v flows anywhere except loads, stores
// (as address), field/index address computations and closure captures.
func addrEscapes(v ssa.Value) bool {
	refs := v.Referrers()
	if refs == nil {
		return true
	}
	for _, r := range *refs {
		switch x := r.(type) {
		case *ssa.Store:
			if x.Val == v {
				return true
			}
		case *ssa.UnOp:
			if x.Op != token.MUL {
				return true
			}
		case *ssa.FieldAddr:
			if addrEscapes(x) {
				return true
			}
		case *ssa.IndexAddr:
			if addrEscapes(x) {
				return true
			}
		case *ssa.MakeClosure:
			// captured by reference: the closure is executed inline by the engine
		case *ssa.DebugRef:
		default:
			return true
		}
	}
	return false
}

// step executes one instruction; it returns false if the path ends (panic / dead).
func (e *Exec) step(fr *frame, st *State, in ssa.Instruction, b *ssa.BasicBlock) bool {
	switch x := in.(type) {
	case *ssa.DebugRef:
		return true
	case *ssa.Alloc:
		et := x.Type().(*types.Pointer).Elem()
		if isCellAlloc(x) {
			c := e.newCell(x.Comment, et)
			if x.Comment == "" {
				c.name = x.Name()
			}
			fr.cells[x] = c
			st.cells[c] = e.ti.zero(et)
			fr.vals[x] = &Ptr{Kind: pCell, Cell: c, Root: et, Type: et}
			return true
		}
		if _, isStruct := et.Underlying().(*types.Struct); isStruct && e.quant == 0 && e.spec == 0 {
			// closed heap: every reference that a slice of *T holds was allocated before the object being
			// allocated now (the same fact is assumed of every reference the code loads; stated here for
			// all elements at once so that quantified specifications over such a slice still speak about the
			// old objects after the allocation)
			name, srt := e.ti.elemComp(types.NewPointer(et), nil)
			if _, known := st.heap[name]; known && srt == SInt {
				as := arraySort(SInt, srt)
				arr := e.heapComp(st, name, SInt, arraySort(SInt, as))
				sel := fmt.Sprintf("(select (select %s cx!a) cx!i)", arr.S)
				e.assume(st, Term{fmt.Sprintf("(forall ((cx!a Int) (cx!i Int)) (! (<= %s %s) :pattern (%s)))", sel, st.alloc.S, sel), SBool})
				e.trusted("closed heap: the references held in a slice of *T were allocated before a T allocated later (the fact assumed of every reference the code loads, stated for all elements at struct allocations)")
			}
		}
		ref := e.allocRef(st, x.Comment)
		p := &Ptr{Kind: pHeap, Ref: ref, Root: et, Type: et}
		switch u := et.Underlying().(type) {
		case *types.Array:
			name, s := e.ti.elemComp(u.Elem(), nil)
			if _, isStruct := u.Elem().Underlying().(*types.Struct); isStruct {
				for _, l := range leaves(u.Elem()) {
					name, s = e.ti.elemComp(u.Elem(), l.path)
					as := arraySort(SInt, s)
					arr := e.heapComp(st, name, SInt, arraySort(SInt, as))
					e.setHeap(st, name, tStore(arr, ref, e.constArray(as, e.ti.zero(l.typ))))
				}
			} else {
				as := arraySort(SInt, s)
				arr := e.heapComp(st, name, SInt, arraySort(SInt, as))
				e.setHeap(st, name, tStore(arr, ref, e.constArray(as, e.ti.zero(u.Elem()))))
			}
		default:
			e.store(st, p, e.ti.zero(et))
			e.initGhosts(st, x.Type(), ref)
		}
		fr.vals[x] = p
		return true
	case *ssa.Store:
		p := e.asPtr(e.val(fr, st, x.Addr), x.Addr.Type())
		e.checkNonNil(st, p, x.Pos(), "store")
		e.guardCheck(st, p, true, e.pos(x.Pos()))
		e.store(st, p, e.val(fr, st, x.Val))
		return true
	case *ssa.UnOp:
		return e.unop(fr, st, x)
	case *ssa.BinOp:
		fr.vals[x] = e.binop(fr, st, x)
		return true
	case *ssa.Phi:
		var vals []Value
		var ins []edgeIn
		for _, inn := range fr.curIns {
			for i, p := range b.Preds {
				if p == inn.from {
					vals = append(vals, e.val(fr, inn.st, x.Edges[i]))
					ins = append(ins, inn)
					break
				}
			}
		}
		if len(vals) == 0 {
			e.unsupported("phi without live incoming edge in %s", fr.fn)
			fr.vals[x] = e.ti.zero(x.Type())
			return true
		}
		fr.vals[x] = e.mergeVals(x.Comment, ins, vals)
		return true
	case *ssa.FieldAddr:
		base := e.asPtr(e.val(fr, st, x.X), x.X.Type())
		e.checkNonNil(st, base, x.Pos(), "field")
		np := *base
		np.Path = append(append([]int{}, base.Path...), x.Field)
		np.Type = base.Type.Underlying().(*types.Struct).Field(x.Field).Type()
		fr.vals[x] = &np
		return true
	case *ssa.Field:
		v := e.term(fr, st, x.X)
		ft := x.X.Type().Underlying().(*types.Struct).Field(x.Field).Type()
		fr.vals[x] = app(e.ti.sortOf(ft), e.ti.fieldAcc(x.X.Type(), x.Field), v)
		return true
	case *ssa.IndexAddr:
		return e.indexAddr(fr, st, x)
	case *ssa.Index:
		return e.index(fr, st, x)
	case *ssa.Slice:
		return e.slice(fr, st, x)
	case *ssa.Lookup:
		return e.lookup(fr, st, x)
	case *ssa.MapUpdate:
		e.guardMapWrite(fr, st, x.Map, e.pos(x.Pos()))
		return e.mapUpdate(fr, st, x)
	case *ssa.MakeMap:
		ref := e.allocRef(st, "map")
		fr.vals[x] = ref
		mt := x.Type().Underlying().(*types.Map)
		mc := e.mapComps(mt)
		dom := e.heapComp(st, mc.dom, SInt, arraySort(SInt, mc.domSort))
		e.setHeap(st, mc.dom, tStore(dom, ref, Term{fmt.Sprintf("((as const %s) false)", mc.domSort), mc.domSort}))
		card := e.heapComp(st, mc.card, SInt, arraySort(SInt, SInt))
		e.setHeap(st, mc.card, tStore(card, ref, tInt(0)))
		return true
	case *ssa.MakeSlice:
		ln := e.term(fr, st, x.Len)
		cp := e.term(fr, st, x.Cap)
		e.oblige(st, "safe", "safe.makeslice", tAnd(tLe(tInt(0), ln), tLe(ln, cp)), e.pos(x.Pos()))
		ref := e.allocRef(st, "makeslice")
		et := x.Type().Underlying().(*types.Slice).Elem()
		for _, l := range leaves(et) {
			name, s := e.ti.elemComp(et, l.path)
			as := arraySort(SInt, s)
			arr := e.heapComp(st, name, SInt, arraySort(SInt, as))
			e.setHeap(st, name, tStore(arr, ref, e.constArray(as, e.ti.zero(l.typ))))
		}
		fr.vals[x] = mkSlice(ref, tInt(0), ln, cp)
		return true
	case *ssa.MakeChan:
		ref := e.allocRef(st, "chan")
		fr.vals[x] = ref
		e.smt.declareFun("chantype", []string{SInt}, SInt)
		e.assume(st, tEq(app(SInt, "chantype", ref), tInt(int64(e.ti.tagOf(x.Type().Underlying().(*types.Chan).Elem())))))
		e.ghostSorts["ghost_closed"] = SBool
		arr := e.heapComp(st, "G.ghost_closed", SInt, arraySort(SInt, SBool))
		e.setHeap(st, "G.ghost_closed", tStore(arr, ref, tFalse))
		return true
	case *ssa.MakeClosure:
		var bs []Value
		for _, bv := range x.Bindings {
			bs = append(bs, e.val(fr, st, bv))
		}
		fr.vals[x] = &Closure{Fn: x.Fn.(*ssa.Function), Bindings: bs}
		return true
	case *ssa.MakeInterface:
		fr.vals[x] = e.makeInterface(st, e.val(fr, st, x.X), x.X.Type())
		if bt, ok := fr.vals[x].(Term); ok {
			if e.boxInfo == nil {
				e.boxInfo = map[string]boxed{}
			}
			e.boxInfo[bt.S] = boxed{e.val(fr, st, x.X), x.X.Type()}
			e.linkPure(st, x.Type(), x.X.Type(), bt, fr.vals[x], e.val(fr, st, x.X), e.pos(x.Pos()))
			e.linkGhost(st, x.X.Type(), e.val(fr, st, x.X))
		}
		return true
	case *ssa.ChangeInterface:
		fr.vals[x] = e.val(fr, st, x.X)
		return true
	case *ssa.ChangeType:
		fr.vals[x] = e.val(fr, st, x.X)
		return true
	case *ssa.Convert:
		fr.vals[x] = e.convert(fr, st, x)
		return true
	case *ssa.TypeAssert:
		return e.typeAssert(fr, st, x)
	case *ssa.Extract:
		tv := e.val(fr, st, x.Tuple)
		tp, ok := tv.(*Tuple)
		if !ok || x.Index >= len(tp.Vals) {
			e.unsupported("extract from non-tuple (%T) at %s", tv, e.pos(x.Pos()))
			fr.vals[x] = e.smt.fresh("ext", e.ti.sortOf(x.Type()))
			return true
		}
		fr.vals[x] = tp.Vals[x.Index]
		return true
	case *ssa.Call:
		return e.call(fr, st, x, &x.Call)
	case *ssa.Defer:
		var args []Value
		for _, a := range x.Call.Args {
			args = append(args, e.val(fr, st, a))
		}
		var fnv Value
		if !x.Call.IsInvoke() {
			fnv = e.val(fr, st, x.Call.Value)
		} else {
			fnv = e.val(fr, st, x.Call.Value)
		}
		st.defers = append(st.defers, deferred{call: &x.Call, fr: fr, args: args, fnv: fnv})
		return true
	case *ssa.RunDefers:
		// run the defers registered by this frame, LIFO
		for {
			n := len(st.defers)
			if n == 0 || st.defers[n-1].fr != fr {
				break
			}
			d := st.defers[n-1]
			st.defers = st.defers[:n-1]
			if _, ok := e.callWith(fr, st, nil, d.call, d.fnv, d.args); !ok {
				return false
			}
		}
		return true
	case *ssa.Go:
		e.trusted("D2: `go` statements are not interleaved (spawn recorded, body not executed): " + e.pos(x.Pos()))
		return true
	case *ssa.Range:
		v := e.val(fr, st, x.X)
		fr.iterOf[x] = v
		c := e.newCell("iter."+x.Name(), types.Typ[types.Int])
		fr.iterPos[x] = c
		if _, isMap := x.X.Type().Underlying().(*types.Map); isMap {
			mt := x.X.Type().Underlying().(*types.Map)
			ks := e.ti.sortOf(mt.Key())
			st.cells[c] = Term{fmt.Sprintf("((as const %s) false)", arraySort(ks, SBool)), arraySort(ks, SBool)}
			cc := e.newCell("itercount."+x.Name(), types.Typ[types.Int])
			fr.iterCount[x] = cc
			st.cells[cc] = tInt(0)
		} else {
			st.cells[c] = tInt(0)
		}
		fr.vals[x] = x
		return true
	case *ssa.Next:
		return e.next(fr, st, x)
	case *ssa.Send:
		return e.send(fr, st, x)
	case *ssa.Select:
		return e.selectInstr(fr, st, x)
	case *ssa.If, *ssa.Jump, *ssa.Return:
		return true
	case *ssa.Panic:
		if e.spec == 0 {
			e.oblige(st, "safe", "safe.panic", tFalse, e.pos(x.Pos()))
		}
		return false
	case *ssa.SliceToArrayPointer:
		e.unsupported("slice to array pointer")
		return true
	}
	e.unsupported("instruction %T in %s", in, fr.fn)
	if v, ok := in.(ssa.Value); ok {
		fr.vals[v] = e.smt.fresh("unk", e.ti.sortOf(v.Type()))
	}
	return true
}

func (e *Exec) checkNonNil(st *State, p *Ptr, pos token.Pos, what string) {
	if p.Kind == pHeap {
		if strings.HasPrefix(p.Ref.S, "alloc!") {
			return
		}
		e.oblige(st, "safe", "safe.nil@"+what, tNot(tEq(p.Ref, tInt(0))), e.pos(pos))
		e.assumeChecked(st, tNot(tEq(p.Ref, tInt(0))))
	}
}

func (e *Exec) unop(fr *frame, st *State, x *ssa.UnOp) bool {
	switch x.Op {
	case token.MUL:
		p := e.asPtr(e.val(fr, st, x.X), x.X.Type())
		e.checkNonNil(st, p, x.Pos(), "load")
		e.guardCheck(st, p, false, e.pos(x.Pos()))
		v := e.load(st, p)
		if t, ok := v.(Term); ok && e.quant == 0 && (p.Kind == pHeap || p.Kind == pElem) {
			e.assume(st, e.wellTyped(st, x.Type(), t))
		}
		fr.vals[x] = v
	case token.NOT:
		fr.vals[x] = tNot(e.term(fr, st, x.X))
	case token.SUB:
		fr.vals[x] = app(SInt, "-", e.term(fr, st, x.X))
	case token.ARROW:
		return e.recv(fr, st, x)
	case token.XOR:
		e.unsupported("bitwise complement")
		fr.vals[x] = e.smt.fresh("xor", SInt)
	default:
		e.unsupported("unary op %s", x.Op)
	}
	return true
}

// wellTyped returns the facts that hold for any value of type t read from the heap or received
// from outside: integer ranges, references allocated, slice shape.
func (e *Exec) wellTyped(st *State, t types.Type, v Term) Term {
	if _, ok := isVcSeq(t); ok {
		return tTrue
	}
	if _, ok := isVcSet(t); ok {
		return tTrue
	}
	switch t.Underlying().(type) {
	case *types.Basic:
		return rangeFact(t, v)
	case *types.Chan:
		// channels of different types are different objects (the closed flag is one array for all)
		e.smt.declareFun("chantype", []string{SInt}, SInt)
		return tAnd(tLe(tInt(0), v), tLe(v, st.alloc), tOr(tEq(v, tInt(0)), tEq(app(SInt, "chantype", v), tInt(int64(e.ti.tagOf(t.Underlying().(*types.Chan).Elem()))))))
	case *types.Pointer, *types.Map:
		return tAnd(tLe(tInt(0), v), tLe(v, st.alloc))
	case *types.Slice:
		return tAnd(tLe(tInt(0), slArr(v)), tLe(slArr(v), st.alloc), tLe(tInt(0), slOff(v)), tLe(tInt(0), slLen(v)), tLe(slLen(v), slCap(v)),
			tImp(tEq(slArr(v), tInt(0)), tEq(slCap(v), tInt(0))))
	case *types.Interface:
		return tLe(v, st.alloc)
	}
	return tTrue
}

func (e *Exec) binop(fr *frame, st *State, x *ssa.BinOp) Value {
	a := e.term(fr, st, x.X)
	b := e.term(fr, st, x.Y)
	xt := x.X.Type().Underlying()
	isStr := false
	if bt, ok := xt.(*types.Basic); ok && bt.Info()&types.IsString != 0 {
		isStr = true
	}
	unsigned := false
	if bt, ok := x.Type().Underlying().(*types.Basic); ok && bt.Info()&types.IsUnsigned != 0 {
		unsigned = true
	}
	switch x.Op {
	case token.ADD:
		if isStr {
			return app(SStr, "scat", a, b)
		}
		return e.wrap(x.Type(), tAdd(a, b))
	case token.SUB:
		r := tSub(a, b)
		if unsigned {
			return e.wrap(x.Type(), r)
		}
		return r
	case token.MUL:
		return app(SInt, "*", a, b)
	case token.QUO:
		e.oblige(st, "safe", "safe.div", tNot(tEq(b, tInt(0))), e.pos(x.Pos()))
		// Go truncates toward zero; SMT div is floor for positive divisor. For non-negative operands they agree.
		return e.truncDiv(a, b)
	case token.REM:
		e.oblige(st, "safe", "safe.div", tNot(tEq(b, tInt(0))), e.pos(x.Pos()))
		return tSub(a, app(SInt, "*", b, e.truncDiv(a, b)))
	case token.EQL:
		return e.equal(x.X.Type(), a, b)
	case token.NEQ:
		return tNot(e.equal(x.X.Type(), a, b))
	case token.LSS:
		if isStr {
			e.smt.declareFun("slt", []string{SStr, SStr}, SBool)
			return app(SBool, "slt", a, b)
		}
		return tLt(a, b)
	case token.LEQ:
		if isStr {
			e.smt.declareFun("slt", []string{SStr, SStr}, SBool)
			return tOr(app(SBool, "slt", a, b), app(SBool, "seq", a, b))
		}
		return tLe(a, b)
	case token.GTR:
		if isStr {
			e.smt.declareFun("slt", []string{SStr, SStr}, SBool)
			return app(SBool, "slt", b, a)
		}
		return tLt(b, a)
	case token.GEQ:
		if isStr {
			e.smt.declareFun("slt", []string{SStr, SStr}, SBool)
			return tOr(app(SBool, "slt", b, a), app(SBool, "seq", a, b))
		}
		return tLe(b, a)
	case token.LAND, token.LOR:
		// only via phi
	case token.AND, token.OR, token.XOR, token.SHL, token.SHR, token.AND_NOT:
		if a.Sort == SBool {
			switch x.Op {
			case token.AND:
				return tAnd(a, b)
			case token.OR:
				return tOr(a, b)
			}
		}
		f := "bitop." + map[token.Token]string{token.AND: "and", token.OR: "or", token.XOR: "xor", token.SHL: "shl", token.SHR: "shr", token.AND_NOT: "andnot"}[x.Op]
		e.smt.declareFun(f, []string{SInt, SInt}, SInt)
		e.trusted("bit operations are uninterpreted functions")
		return app(SInt, f, a, b)
	}
	e.unsupported("binary op %s", x.Op)
	return e.smt.fresh("bin", e.ti.sortOf(x.Type()))
}

func (e *Exec) truncDiv(a, b Term) Term {
	// trunc(a/b) for b != 0
	q := app(SInt, "div", a, b)
	// SMT div: a = b*q + r, 0 <= r < |b|. Go: truncation toward zero.
	adj := tIte(tAnd(tLt(a, tInt(0)), tNot(tEq(app(SInt, "mod", a, b), tInt(0)))),
		tIte(tLt(tInt(0), b), tAdd(q, tInt(1)), tSub(q, tInt(1))), q)
	return adj
}

// wrap models unsigned / narrow wrap-around for byte arithmetic only (A-ARITH: wider types are
// mathematical integers).
func (e *Exec) wrap(t types.Type, v Term) Term {
	if b, ok := t.Underlying().(*types.Basic); ok {
		switch b.Kind() {
		case types.Uint8:
			return app(SInt, "mod", v, tInt(256))
		case types.Uint16:
			return app(SInt, "mod", v, tInt(65536))
		}
	}
	return v
}

func (e *Exec) equal(t types.Type, a, b Term) Term {
	switch u := t.Underlying().(type) {
	case *types.Basic:
		if u.Info()&types.IsString != 0 {
			if a.S == b.S {
				return tTrue
			}
			return app(SBool, "seq", a, b)
		}
	case *types.Slice:
		// only comparison with nil is legal
		if a.S == nilSlice.S {
			return tEq(slArr(b), tInt(0))
		}
		if b.S == nilSlice.S {
			return tEq(slArr(a), tInt(0))
		}
	case *types.Struct:
		// field-wise
		var cs []Term
		for i := 0; i < u.NumFields(); i++ {
			ft := u.Field(i).Type()
			acc := e.ti.fieldAcc(t, i)
			cs = append(cs, e.equal(ft, app(e.ti.sortOf(ft), acc, a), app(e.ti.sortOf(ft), acc, b)))
		}
		return tAnd(cs...)
	case *types.Interface:
		return tEq(a, b)
	}
	return tEq(a, b)
}

func (e *Exec) convert(fr *frame, st *State, x *ssa.Convert) Value {
	v := e.val(fr, st, x.X)
	from := x.X.Type().Underlying()
	to := x.Type().Underlying()
	fb, fok := from.(*types.Basic)
	tb, tok := to.(*types.Basic)
	if fok && tok {
		t := e.asTerm(st, v, x.X.Type())
		if fb.Info()&types.IsInteger != 0 && tb.Info()&types.IsInteger != 0 {
			return e.convInt(fb, tb, t)
		}
		if fb.Info()&types.IsString != 0 && tb.Info()&types.IsString != 0 {
			return t
		}
		if fb.Info()&types.IsInteger != 0 && tb.Info()&types.IsString != 0 {
			// string(rune): for ASCII a one-byte string
			r := e.smt.fresh("runestr", SStr)
			e.assume(st, tImp(tAnd(tLe(tInt(0), t), tLt(t, tInt(128))), tAnd(tEq(app(SInt, "slen", r), tInt(1)), tEq(app(SInt, "sat", r, tInt(0)), t))))
			e.assume(st, tAnd(tLe(tInt(1), app(SInt, "slen", r)), tLe(app(SInt, "slen", r), tInt(4))))
			return r
		}
		if fb.Info()&types.IsFloat != 0 || tb.Info()&types.IsFloat != 0 {
			e.unsupported("float conversion")
			return e.smt.fresh("flt", e.ti.sortOf(x.Type()))
		}
		return t
	}
	// string <-> []byte / []rune
	if fok && fb.Info()&types.IsString != 0 {
		if sl, ok := to.(*types.Slice); ok {
			s := e.asTerm(st, v, x.X.Type())
			return e.strToSlice(st, s, sl)
		}
	}
	if tok && tb.Info()&types.IsString != 0 {
		if sl, ok := from.(*types.Slice); ok {
			s := e.asTerm(st, v, x.X.Type())
			return e.sliceToStr(st, s, sl)
		}
	}
	if _, ok := to.(*types.Pointer); ok {
		return v
	}
	e.unsupported("conversion %s -> %s", x.X.Type(), x.Type())
	return e.smt.fresh("conv", e.ti.sortOf(x.Type()))
}

func (e *Exec) convInt(fb, tb *types.Basic, t Term) Term {
	switch tb.Kind() {
	case types.Uint8:
		if fb.Kind() == types.Uint8 {
			return t
		}
		return app(SInt, "mod", t, tInt(256))
	case types.Uint16:
		if fb.Kind() == types.Uint8 || fb.Kind() == types.Uint16 {
			return t
		}
		return app(SInt, "mod", t, tInt(65536))
	}
	return t
}

// strToSlice: []byte(s) / []rune(s): fresh backing array whose contents are given by a quantified fact.
func (e *Exec) strToSlice(st *State, s Term, sl *types.Slice) Term {
	ref := e.allocRef(st, "conv")
	eb := sl.Elem().Underlying().(*types.Basic)
	name, srt := e.ti.elemComp(sl.Elem(), nil)
	as := arraySort(SInt, srt)
	arr := e.heapComp(st, name, SInt, arraySort(SInt, as))
	content := e.smt.fresh("convarr", as)
	e.setHeap(st, name, tStore(arr, ref, content))
	if eb.Kind() == types.Uint8 {
		e.assumeGlobal(Term{fmt.Sprintf("(forall ((i Int)) (! (=> (and (<= 0 i) (< i (slen %s))) (= (select %s i) (sat %s i))) :pattern ((select %s i))))", s.S, content.S, s.S, content.S), SBool})
		return mkSlice(ref, tInt(0), app(SInt, "slen", s), app(SInt, "slen", s))
	}
	// []rune(s): uninterpreted decoding: runes(s) with rlen(s); ASCII strings map bytewise
	e.smt.declareFun("rlen", []string{SStr}, SInt)
	e.smt.declareFun("rat", []string{SStr, SInt}, SInt)
	e.smt.axiom("rlen", "(assert (forall ((s Str)) (! (and (<= 0 (rlen s)) (<= (rlen s) (slen s))) :pattern ((rlen s)))))")
	e.trusted("D5: []rune(s) is an uninterpreted decoding (rlen, rat) with 0 <= rlen(s) <= len(s)")
	ln := app(SInt, "rlen", s)
	e.assumeGlobal(Term{fmt.Sprintf("(forall ((i Int)) (! (=> (and (<= 0 i) (< i (rlen %s))) (= (select %s i) (rat %s i))) :pattern ((select %s i))))", s.S, content.S, s.S, content.S), SBool})
	return mkSlice(ref, tInt(0), ln, ln)
}

func (e *Exec) sliceToStr(st *State, s Term, sl *types.Slice) Term {
	r := e.smt.fresh("bstr", SStr)
	eb, _ := sl.Elem().Underlying().(*types.Basic)
	if eb != nil && eb.Kind() == types.Uint8 {
		name, srt := e.ti.elemComp(sl.Elem(), nil)
		as := arraySort(SInt, srt)
		arr := e.heapComp(st, name, SInt, arraySort(SInt, as))
		content := e.smt.define("bcont", tSelect(arr, slArr(s), as))
		e.assume(st, tEq(app(SInt, "slen", r), slLen(s)))
		e.assume(st, Term{fmt.Sprintf("(forall ((i Int)) (! (=> (and (<= 0 i) (< i (s_len %s))) (= (sat %s i) (select %s (+ (s_off %s) i)))) :pattern ((sat %s i))))", s.S, r.S, content.S, s.S, r.S), SBool})
		return r
	}
	e.trusted("string([]rune) is an arbitrary string")
	return r
}

func (e *Exec) makeInterface(st *State, v Value, t types.Type) Value {
	// pointers: the reference itself identifies the object; the dynamic type is recorded.
	tag := e.ti.tagOf(t)
	e.smt.declareFun("dyntype", []string{SInt}, SInt)
	switch t.Underlying().(type) {
	case *types.Pointer:
		ref := e.asTerm(st, v, t)
		// interface holding a (possibly nil) pointer: encode as box of the pointer so that a nil pointer
		// in an interface is not the nil interface.
		f := "box." + smtIdent(typeShort(t))
		e.smt.declareFun(f, []string{SInt}, SInt)
		e.smt.declareFun("un"+f, []string{SInt}, SInt)
		e.boxAxiom(f, SInt, tag)
		r := app(SInt, f, ref)
		e.assumeGlobalOrDrop(tAnd(tEq(app(SInt, "un"+f, r), ref), tEq(app(SInt, "dyntype", r), tInt(int64(tag))), tLt(r, tInt(0))))
		return r
	case *types.Interface:
		return v
	}
	vt := e.asTerm(st, v, t)
	f := "box." + smtIdent(typeShort(t))
	e.smt.declareFun(f, []string{vt.Sort}, SInt)
	e.smt.declareFun("un"+f, []string{SInt}, vt.Sort)
	e.boxAxiom(f, vt.Sort, tag)
	r := app(SInt, f, vt)
	e.assumeGlobalOrDrop(tAnd(tEq(app(vt.Sort, "un"+f, r), vt), tEq(app(SInt, "dyntype", r), tInt(int64(tag))), tLt(r, tInt(0))))
	return r
}

// boxAxiom: boxing is a constructor — injective, tagged with its dynamic type, and disjoint from object
// references (negative).  Emitted once per boxed type, so that it is also available for boxing under
// quantifiers (where per-site facts are dropped).
func (e *Exec) boxAxiom(f, argSort string, tag int) {
	if e.boxAx == nil {
		e.boxAx = map[string]bool{}
	}
	if e.boxAx[f] {
		return
	}
	e.boxAx[f] = true
	e.smt.axioms = append(e.smt.axioms, fmt.Sprintf("(assert (forall ((x %s)) (! (and (= (un%s (%s x)) x) (= (dyntype (%s x)) %d) (< (%s x) 0)) :pattern ((%s x)))))", argSort, f, f, f, tag, f, f))
}

func (e *Exec) assumeGlobalOrDrop(t Term) {
	if e.quant > 0 {
		return
	}
	e.assumeGlobal(t)
}

func (e *Exec) typeAssert(fr *frame, st *State, x *ssa.TypeAssert) bool {
	v := e.term(fr, st, x.X)
	e.smt.declareFun("dyntype", []string{SInt}, SInt)
	at := x.AssertedType
	var ok Term
	var res Term
	if _, isIface := at.Underlying().(*types.Interface); isIface {
		// interface-to-interface: holds iff non-nil and implements; implementation relation is not modelled
		okv := e.smt.fresh("implements", SBool)
		ok = tAnd(tNot(tEq(v, tInt(0))), okv)
		res = v
	} else {
		tag := e.ti.tagOf(at)
		ok = tAnd(tNot(tEq(v, tInt(0))), tEq(app(SInt, "dyntype", v), tInt(int64(tag))))
		f := "box." + smtIdent(typeShort(at))
		srt := e.ti.sortOf(at)
		if _, isPtr := at.Underlying().(*types.Pointer); isPtr {
			e.smt.declareFun(f, []string{SInt}, SInt)
			e.smt.declareFun("un"+f, []string{SInt}, SInt)
			e.boxAxiom(f, SInt, tag)
		} else {
			e.smt.declareFun(f, []string{srt}, SInt)
			e.smt.declareFun("un"+f, []string{SInt}, srt)
			e.boxAxiom(f, srt, tag)
		}
		res = app(srt, "un"+f, v)
		// boxing is surjective onto values of this dynamic type
		e.assume(st, tImp(ok, tEq(app(SInt, f, res), v)))
		e.assume(st, tImp(ok, e.wellTyped(st, at, res)))
	}
	if x.CommaOk {
		fr.vals[x] = &Tuple{[]Value{tIte(ok, res, e.ti.zero(at)), ok}}
		return true
	}
	e.oblige(st, "safe", "safe.typeassert", ok, e.pos(x.Pos()))
	e.assumeChecked(st, ok)
	fr.vals[x] = res
	return true
}

func (e *Exec) indexAddr(fr *frame, st *State, x *ssa.IndexAddr) bool {
	idx := e.term(fr, st, x.Index)
	switch xt := x.X.Type().Underlying().(type) {
	case *types.Slice:
		s := e.term(fr, st, x.X)
		e.oblige(st, "safe", "safe.index", tAnd(tLe(tInt(0), idx), tLt(idx, slLen(s))), e.pos(x.Pos()))
		e.assumeChecked(st, tAnd(tLe(tInt(0), idx), tLt(idx, slLen(s))))
		fr.vals[x] = &Ptr{Kind: pElem, Ref: slArr(s), Idx: app(SInt, "sidx", s, idx), Root: xt.Elem(), Type: xt.Elem()}
	case *types.Pointer:
		at := xt.Elem().Underlying().(*types.Array)
		base := e.asPtr(e.val(fr, st, x.X), x.X.Type())
		if base.Kind != pHeap || len(base.Path) != 0 {
			e.unsupported("index into array that is not a heap object")
			fr.vals[x] = &Ptr{Kind: pElem, Ref: tInt(0), Idx: idx, Root: at.Elem(), Type: at.Elem()}
			return true
		}
		e.oblige(st, "safe", "safe.index", tAnd(tLe(tInt(0), idx), tLt(idx, tInt(at.Len()))), e.pos(x.Pos()))
		fr.vals[x] = &Ptr{Kind: pElem, Ref: base.Ref, Idx: idx, Root: at.Elem(), Type: at.Elem()}
	default:
		e.unsupported("IndexAddr on %s", x.X.Type())
	}
	return true
}

func (e *Exec) index(fr *frame, st *State, x *ssa.Index) bool {
	idx := e.term(fr, st, x.Index)
	switch xt := x.X.Type().Underlying().(type) {
	case *types.Basic: // string
		s := e.term(fr, st, x.X)
		e.oblige(st, "safe", "safe.index", tAnd(tLe(tInt(0), idx), tLt(idx, app(SInt, "slen", s))), e.pos(x.Pos()))
		e.assumeChecked(st, tAnd(tLe(tInt(0), idx), tLt(idx, app(SInt, "slen", s))))
		fr.vals[x] = app(SInt, "sat", s, idx)
	case *types.Array:
		a := e.term(fr, st, x.X)
		fr.vals[x] = tSelect(a, idx, e.ti.sortOf(xt.Elem()))
	default:
		e.unsupported("Index on %s", x.X.Type())
	}
	return true
}

func (e *Exec) slice(fr *frame, st *State, x *ssa.Slice) bool {
	var lo, hi, mx Term
	hasLo, hasHi, hasMax := x.Low != nil, x.High != nil, x.Max != nil
	if hasLo {
		lo = e.term(fr, st, x.Low)
	} else {
		lo = tInt(0)
	}
	if hasHi {
		hi = e.term(fr, st, x.High)
	}
	if hasMax {
		mx = e.term(fr, st, x.Max)
	}
	switch xt := x.X.Type().Underlying().(type) {
	case *types.Basic: // string
		s := e.term(fr, st, x.X)
		if !hasHi {
			hi = app(SInt, "slen", s)
		}
		cond := tAnd(tLe(tInt(0), lo), tLe(lo, hi), tLe(hi, app(SInt, "slen", s)))
		e.oblige(st, "safe", "safe.slice", cond, e.pos(x.Pos()))
		e.assumeChecked(st, cond)
		fr.vals[x] = app(SStr, "ssub", s, lo, hi)
	case *types.Slice:
		s := e.term(fr, st, x.X)
		if !hasHi {
			hi = slLen(s)
		}
		if !hasMax {
			mx = slCap(s)
		}
		cond := tAnd(tLe(tInt(0), lo), tLe(lo, hi), tLe(hi, mx), tLe(mx, slCap(s)))
		e.oblige(st, "safe", "safe.slice", cond, e.pos(x.Pos()))
		e.assumeChecked(st, cond)
		r := mkSlice(slArr(s), tAdd(slOff(s), lo), tSub(hi, lo), tSub(mx, lo))
		if e.quant == 0 {
			r = e.smt.define("slice", r)
		}
		fr.vals[x] = r
	case *types.Pointer: // pointer to array
		at := xt.Elem().Underlying().(*types.Array)
		base := e.asPtr(e.val(fr, st, x.X), x.X.Type())
		n := tInt(at.Len())
		if !hasHi {
			hi = n
		}
		if !hasMax {
			mx = n
		}
		cond := tAnd(tLe(tInt(0), lo), tLe(lo, hi), tLe(hi, mx), tLe(mx, n))
		e.oblige(st, "safe", "safe.slice", cond, e.pos(x.Pos()))
		if base.Kind != pHeap || len(base.Path) != 0 {
			e.unsupported("slice of array that is not a heap object")
			fr.vals[x] = nilSlice
			return true
		}
		fr.vals[x] = mkSlice(base.Ref, lo, tSub(hi, lo), tSub(mx, lo))
	default:
		e.unsupported("Slice on %s", x.X.Type())
	}
	return true
}

type mapComps struct {
	dom, val, card    string
	domSort, valSort  string
	keySort, elemSort string
}

// wfInitialMap: at function entry every value stored in a map of this type is well typed (references
// allocated before entry).
func (e *Exec) wfInitialMap(mt *types.Map) {
	mc := e.mapComps(mt)
	key := "wf:" + mc.val
	if e.smt.axiomDone[key] || e.entryAlloc.S == "" {
		return
	}
	e.smt.axiomDone[key] = true
	valSym := "H." + smtIdent(mc.val) + "!0"
	domSym := "H." + smtIdent(mc.dom) + "!0"
	e.smt.declare(valSym, arraySort(SInt, mc.valSort))
	e.smt.declare(domSym, arraySort(SInt, mc.domSort))
	tmp := &State{alloc: e.entryAlloc}
	sel := Term{fmt.Sprintf("(select (select %s wm) wk)", valSym), mc.elemSort}
	f := e.wellTyped(tmp, mt.Elem(), sel)
	if f.S == "true" {
		return
	}
	e.smt.axioms = append(e.smt.axioms, fmt.Sprintf("(assert (forall ((wm Int) (wk %s)) (! (=> (and (< 0 wm) (<= wm %s) (select (select %s wm) wk)) %s) :pattern (%s))))", mc.keySort, e.entryAlloc.S, domSym, f.S, sel.S))
}

func (e *Exec) mapComps(mt *types.Map) mapComps {
	ks := e.ti.sortOf(mt.Key())
	vs := e.ti.sortOf(mt.Elem())
	// keyed by the Go map type: maps of different types never alias
	base := "M." + typeShort(mt)
	return mapComps{dom: base + ".dom", val: base + ".val", card: base + ".card", domSort: arraySort(ks, SBool), valSort: arraySort(ks, vs), keySort: ks, elemSort: vs}
}

func (e *Exec) mapKey(t types.Type, k Term) Term {
	return k
}

func (e *Exec) lookup(fr *frame, st *State, x *ssa.Lookup) bool {
	if mt, ok := x.X.Type().Underlying().(*types.Map); ok {
		m := e.term(fr, st, x.X)
		k := e.term(fr, st, x.Index)
		mc := e.mapComps(mt)
		e.wfInitialMap(mt)
		dom := tSelect(e.heapComp(st, mc.dom, SInt, arraySort(SInt, mc.domSort)), m, mc.domSort)
		val := tSelect(e.heapComp(st, mc.val, SInt, arraySort(SInt, mc.valSort)), m, mc.valSort)
		// nil map: reads yield zero
		has := tAnd(tNot(tEq(m, tInt(0))), tSelect(dom, k, SBool))
		v := tIte(has, tSelect(val, k, mc.elemSort), e.ti.zero(mt.Elem()))
		if e.quant == 0 {
			e.assume(st, tImp(has, e.wellTyped(st, mt.Elem(), tSelect(val, k, mc.elemSort))))
		}
		if x.CommaOk {
			fr.vals[x] = &Tuple{[]Value{v, has}}
		} else {
			fr.vals[x] = v
		}
		return true
	}
	// string index
	s := e.term(fr, st, x.X)
	idx := e.term(fr, st, x.Index)
	e.oblige(st, "safe", "safe.index", tAnd(tLe(tInt(0), idx), tLt(idx, app(SInt, "slen", s))), e.pos(x.Pos()))
	fr.vals[x] = app(SInt, "sat", s, idx)
	return true
}

func (e *Exec) mapUpdate(fr *frame, st *State, x *ssa.MapUpdate) bool {
	mt := x.Map.Type().Underlying().(*types.Map)
	m := e.term(fr, st, x.Map)
	k := e.term(fr, st, x.Key)
	v := e.term(fr, st, x.Value)
	e.oblige(st, "safe", "safe.nilmap", tNot(tEq(m, tInt(0))), e.pos(x.Pos()))
	e.mapInsert(st, mt, m, k, v)
	return true
}

func (e *Exec) mapInsert(st *State, mt *types.Map, m, k, v Term) {
	mc := e.mapComps(mt)
	domH := e.heapComp(st, mc.dom, SInt, arraySort(SInt, mc.domSort))
	valH := e.heapComp(st, mc.val, SInt, arraySort(SInt, mc.valSort))
	cardH := e.heapComp(st, mc.card, SInt, arraySort(SInt, SInt))
	dom := tSelect(domH, m, mc.domSort)
	val := tSelect(valH, m, mc.valSort)
	card := tSelect(cardH, m, SInt)
	had := tSelect(dom, k, SBool)
	e.setHeap(st, mc.card, tStore(cardH, m, tIte(had, card, tAdd(card, tInt(1)))))
	e.setHeap(st, mc.dom, tStore(domH, m, tStore(dom, k, tTrue)))
	e.setHeap(st, mc.val, tStore(valH, m, tStore(val, k, v)))
}

func (e *Exec) mapDelete(st *State, mt *types.Map, m, k Term) {
	mc := e.mapComps(mt)
	domH := e.heapComp(st, mc.dom, SInt, arraySort(SInt, mc.domSort))
	cardH := e.heapComp(st, mc.card, SInt, arraySort(SInt, SInt))
	dom := tSelect(domH, m, mc.domSort)
	card := tSelect(cardH, m, SInt)
	had := tAnd(tNot(tEq(m, tInt(0))), tSelect(dom, k, SBool))
	e.setHeap(st, mc.card, tStore(cardH, m, tIte(had, tSub(card, tInt(1)), card)))
	e.setHeap(st, mc.dom, tStore(domH, m, tStore(dom, k, tFalse)))
}

func (e *Exec) mapLen(st *State, mt *types.Map, m Term) Term {
	mc := e.mapComps(mt)
	cardH := e.heapComp(st, mc.card, SInt, arraySort(SInt, SInt))
	domH := e.heapComp(st, mc.dom, SInt, arraySort(SInt, mc.domSort))
	card := tSelect(cardH, m, SInt)
	dom := tSelect(domH, m, mc.domSort)
	// card >= 0, and card == 0 iff the domain is empty (one direction instantiated lazily by a quantifier)
	if e.quant == 0 {
		e.assume(st, tLe(tInt(0), card))
		k := "k"
		e.assume(st, Term{fmt.Sprintf("(=> (= %s 0) (forall ((%s %s)) (! (not (select %s %s)) :pattern ((select %s %s)))))", card.S, k, mc.keySort, dom.S, k, dom.S, k), SBool})
		e.assume(st, Term{fmt.Sprintf("(forall ((%s %s)) (! (=> (select %s %s) (> %s 0)) :pattern ((select %s %s))))", k, mc.keySort, dom.S, k, card.S, dom.S, k), SBool})
		// a non-empty map has a key (witness function)
		wf := "mapwit." + smtIdent(mc.keySort)
		e.smt.declareFun(wf, []string{mc.domSort}, mc.keySort)
		e.assume(st, Term{fmt.Sprintf("(=> (> %s 0) (select %s (%s %s)))", card.S, dom.S, wf, dom.S), SBool})
		// ... and a map with at least two entries has two distinct keys
		wf2 := "mapwit2." + smtIdent(mc.keySort)
		e.smt.declareFun(wf2, []string{mc.domSort}, mc.keySort)
		e.assume(st, Term{fmt.Sprintf("(=> (> %s 1) (and (select %s (%s %s)) (not (= (%s %s) (%s %s)))))", card.S, dom.S, wf2, dom.S, wf2, dom.S, wf, dom.S), SBool})
	}
	return tIte(tEq(m, tInt(0)), tInt(0), card)
}

func (e *Exec) next(fr *frame, st *State, x *ssa.Next) bool {
	rng, ok := x.Iter.(*ssa.Range)
	if !ok {
		e.unsupported("Next on non-Range iterator")
		return true
	}
	posCell := fr.iterPos[rng]
	if x.IsString {
		s := e.asTerm(st, fr.iterOf[rng], rng.X.Type())
		pos := st.cells[posCell].(Term)
		okT := tLt(pos, app(SInt, "slen", s))
		b := app(SInt, "sat", s, pos)
		r := e.smt.fresh("rune", SInt)
		w := e.smt.fresh("rw", SInt)
		e.trusted("D5: UTF-8 decoding in range-over-string: byte < 0x80 => rune = byte, width 1; otherwise rune >= 0x80, width 1..4")
		e.assume(st, tImp(okT, tIte(tLt(b, tInt(128)), tAnd(tEq(r, b), tEq(w, tInt(1))),
			tAnd(tLe(tInt(128), r), tLe(r, tInt(1114111)), tLe(tInt(1), w), tLe(w, tInt(4)), tLe(tAdd(pos, w), app(SInt, "slen", s))))))
		np := tIte(okT, tAdd(pos, w), pos)
		st.cells[posCell] = e.smt.define("iterpos", np)
		fr.vals[x] = &Tuple{[]Value{okT, pos, r}}
		return true
	}
	// map iteration: visited set
	mt := rng.X.Type().Underlying().(*types.Map)
	mc := e.mapComps(mt)
	m := e.asTerm(st, fr.iterOf[rng], rng.X.Type())
	vis := st.cells[posCell].(Term)
	dom := tSelect(e.heapComp(st, mc.dom, SInt, arraySort(SInt, mc.domSort)), m, mc.domSort)
	val := tSelect(e.heapComp(st, mc.val, SInt, arraySort(SInt, mc.valSort)), m, mc.valSort)
	okT := e.smt.fresh("mapnext", SBool)
	k := e.smt.fresh("mapkey", mc.keySort)
	e.trusted("D6: map iteration visits each present key at most once, in arbitrary order, and ends only when every present key was visited")
	e.assume(st, tImp(okT, tAnd(tNot(tEq(m, tInt(0))), tSelect(dom, k, SBool), tNot(tSelect(vis, k, SBool)))))
	e.assume(st, tImp(tNot(okT), Term{fmt.Sprintf("(forall ((kk %s)) (! (=> (and (not (= %s 0)) (select %s kk)) (select %s kk)) :pattern ((select %s kk))))", mc.keySort, m.S, dom.S, vis.S, dom.S), SBool}))
	v := tSelect(val, k, mc.elemSort)
	e.assume(st, tImp(okT, e.wellTyped(st, mt.Elem(), v)))
	st.cells[posCell] = e.smt.define("visited", tIte(okT, tStore(vis, k, tTrue), vis))
	if cc := fr.iterCount[rng]; cc != nil {
		cnt := st.cells[cc].(Term)
		// D6: a map that is not modified while being ranged over yields exactly len(m) iterations
		if !mapModifiedInLoop(x, mt) {
			cardH := e.heapComp(st, mc.card, SInt, arraySort(SInt, SInt))
			card := tIte(tEq(m, tInt(0)), tInt(0), tSelect(cardH, m, SInt))
			e.assume(st, tAnd(tLe(cnt, card), tImp(tNot(okT), tEq(cnt, card)), tImp(okT, tLt(cnt, card))))
		}
		st.cells[cc] = e.smt.define("itercount", tIte(okT, tAdd(cnt, tInt(1)), cnt))
	}
	fr.vals[x] = &Tuple{[]Value{okT, k, v}}
	return true
}

// Channels (D2/D3): other goroutines are not interleaved.  A receive yields an arbitrary well-typed
// value, a send has no effect on the state under verification, select chooses any of its cases;
// the only channel state tracked is the ghost flag ghost_closed(ch) (close of a closed channel and
// send on a closed channel are safety obligations).
func (e *Exec) chanClosed(st *State, ch Term) Term {
	e.ghostSorts["ghost_closed"] = SBool
	arr := e.heapComp(st, "G.ghost_closed", SInt, arraySort(SInt, SBool))
	return tSelect(arr, ch, SBool)
}

// Channel invariants.  For a channel held in a struct field F of a type declared in package P:
//   pred chaninv_F(v T) bool     — asserted at every send on such a channel in verified code, assumed at receives;
//   pred chanassume_F(v T) bool  — only assumed at receives (trusted base).
func chanField(v ssa.Value) (string, *types.Package) {
	if u, ok := v.(*ssa.UnOp); ok && u.Op == token.MUL {
		if fa, ok := u.X.(*ssa.FieldAddr); ok {
			if pt, ok := fa.X.Type().Underlying().(*types.Pointer); ok {
				if stt, ok := pt.Elem().Underlying().(*types.Struct); ok {
					f := stt.Field(fa.Field)
					return f.Name(), f.Pkg()
				}
			}
		}
	}
	return "", nil
}

func (e *Exec) chanPred(fr *frame, st *State, ch ssa.Value, prefix string, v Value, entry *State) (Term, bool) {
	if e.entry != nil {
		entry = e.entry // old(...) in a channel predicate: the entry of the function under verification
	}
	name, pkg := chanField(ch)
	if name == "" || pkg == nil {
		return tTrue, false
	}
	pk := e.w.Pkgs[pkg.Path()]
	if pk == nil || pk.SSA == nil || pk.SSA.Func(prefix+name) == nil {
		return tTrue, false
	}
	// further parameters of the predicate are bound, by name, to locals of the function at hand
	args := []Value{v}
	pf := pk.SSA.Func(prefix + name)
	for _, p := range pf.Params[1:] {
		if p.Name() == "ridx" || p.Name() == "rvisited" {
			return tTrue, false
		}
		var lv Value
		ok := false
		for f := fr; f != nil && !ok; f = f.parent {
			lv, ok = e.namedLocal(f, st, p.Name(), nil)
			if os.Getenv("GOVC_DEBUG") != "" {
				fmt.Fprintf(os.Stderr, "  lookup %s in frame %s: ok=%v v=%v\n", p.Name(), f.fn.Name(), ok, lv)
			}
			if !ok {
				// a parameter of that frame's function
				for i, fp := range f.fn.Params {
					if fp.Name() == p.Name() && i < len(f.args) {
						lv, ok = f.args[i], true
					}
				}
			}
		}
		if !ok {
			// not applicable in this function
			return tTrue, false
		}
		if os.Getenv("GOVC_DEBUG") != "" {
			fmt.Fprintf(os.Stderr, "chanPred %s%s: %s = %v\n", prefix, name, p.Name(), lv)
		}
		args = append(args, lv)
	}
	return e.evalSpec(st, pkg.Path(), prefix+name, args, entry)
}

func (e *Exec) recvAssume(fr *frame, st *State, ch ssa.Value, v Value, ok Term) {
	if e.spec > 0 || e.quant > 0 {
		return
	}
	zero := tEq(v.(Term), e.ti.zero(ch.Type().Underlying().(*types.Chan).Elem()))
	if g, found := e.chanPred(fr, st, ch, "chaninv_", v, fr.entryState); found {
		name, _ := chanField(ch)
		e.trusted("channel invariant chaninv_" + name + ": assumed at receives; checked at sends only in functions under contract")
		e.assume(st, tImp(ok, g))
		e.assume(st, tImp(tNot(ok), zero))
	}
	if g, found := e.chanPred(fr, st, ch, "chanassume_", v, fr.entryState); found {
		name, _ := chanField(ch)
		e.trusted("assumed fact about values received from channel field " + name + " (chanassume_" + name + ")")
		e.assume(st, tImp(ok, g))
	}
}

func (e *Exec) send(fr *frame, st *State, x *ssa.Send) bool {
	ch := e.term(fr, st, x.Chan)
	if e.spec == 0 && e.quant == 0 {
		if g, found := e.chanPred(fr, st, x.Chan, "chaninv_", e.val(fr, st, x.X), fr.entryState); found {
			name, _ := chanField(x.Chan)
			e.oblige(st, "chaninv", "chaninv.send@"+name, g, e.pos(x.Pos()))
		}
		// chansend_<field>: a condition on the sender's state at the moment of the send (not assumed by receivers)
		if g, found := e.chanPred(fr, st, x.Chan, "chansend_", e.val(fr, st, x.X), fr.entryState); found {
			name, _ := chanField(x.Chan)
			e.oblige(st, "chaninv", "chansend@"+name, g, e.pos(x.Pos()))
		}
	}
	e.trusted("D3: channel operations: a receive yields an arbitrary value, a send does not change the verified state, select picks any case; goroutine interleaving is not modelled")
	e.sendClosedObl(st, ch, e.pos(x.Pos()))
	if e.spec == 0 && e.quant == 0 {
		// the only effect of a send that is tracked: the ghost count of values sent on the channel
		e.ghostSorts["ghost_nsent"] = SInt
		arr := e.heapComp(st, "G.ghost_nsent", SInt, arraySort(SInt, SInt))
		e.setHeap(st, "G.ghost_nsent", tStore(arr, ch, tAdd(tSelect(arr, ch, SInt), tInt(1))))
	}
	if e.lockChecking() && len(st.locks) > 0 {
		e.oblige(st, "lock", "lock.blocking", tFalse, e.pos(x.Pos())+": channel send while holding a lock")
	}
	if e.nonblocking() {
		e.oblige(st, "nonblocking", "nonblocking.send", tFalse, e.pos(x.Pos()))
	}
	return true
}

// nonblocking: the function under verification is declared `attr nonblocking=1` — it must not
// contain a channel operation that can wait (a plain send or receive, or a select without default).
func (e *Exec) nonblocking() bool {
	return e.topCt != nil && e.topCt.Attrs["nonblocking"] != "" && e.spec == 0
}

// sendClosedObl: a send on a closed channel panics.  A function declared `maypanic` is allowed
// exactly this panic (its callers must contain it: safe.panic@unrecovered at their call sites).
func (e *Exec) sendClosedObl(st *State, ch Term, where string) {
	if e.topCt != nil && e.topCt.MayPanic {
		e.trusted("declared maypanic: a send on a closed channel in " + shortKey(e.topCt.Key) + " is tolerated (callers must recover)")
		return
	}
	e.oblige(st, "safe", "safe.send@closed", tNot(e.chanClosed(st, ch)), where)
}

func (e *Exec) recv(fr *frame, st *State, x *ssa.UnOp) bool {
	e.trusted("D3: channel operations: a receive yields an arbitrary value, a send does not change the verified state, select picks any case; goroutine interleaving is not modelled")
	var et types.Type = x.Type()
	if x.CommaOk {
		et = x.Type().(*types.Tuple).At(0).Type()
	}
	// the value may refer to objects another goroutine allocated: the allocation counter moves first
	na := e.smt.fresh("alloc", SInt)
	e.assume(st, tLe(st.alloc, na))
	st.alloc = na
	v := e.smt.fresh("recv", e.ti.sortOf(et))
	e.assume(st, e.wellTypedDeep(st, et, v))
	if e.nonblocking() {
		e.oblige(st, "nonblocking", "nonblocking.recv", tFalse, e.pos(x.Pos()))
	}
	okT := e.smt.fresh("recvok", SBool)
	if _, isStruct := et.Underlying().(*types.Struct); !isStruct {
		e.recvAssume(fr, st, x.X, v, okT)
	}
	if x.CommaOk {
		fr.vals[x] = &Tuple{[]Value{v, okT}}
	} else {
		fr.vals[x] = v
	}
	return true
}

func (e *Exec) selectInstr(fr *frame, st *State, x *ssa.Select) bool {
	e.trusted("D3: channel operations: a receive yields an arbitrary value, a send does not change the verified state, select picks any case; goroutine interleaving is not modelled")
	idx := e.smt.fresh("selidx", SInt)
	lo := int64(0)
	if !x.Blocking {
		lo = -1
	} else if e.nonblocking() {
		e.oblige(st, "nonblocking", "nonblocking.select", tFalse, e.pos(x.Pos()))
	}
	e.assume(st, tAnd(tLe(tInt(lo), idx), tLt(idx, tInt(int64(len(x.States))))))
	selok := e.smt.fresh("selok", SBool)
	vals := []Value{idx, selok}
	na := e.smt.fresh("alloc", SInt)
	e.assume(st, tLe(st.alloc, na))
	st.alloc = na
	for i, sc := range x.States {
		if sc.Dir == types.RecvOnly {
			et := sc.Chan.Type().Underlying().(*types.Chan).Elem()
			v := e.smt.fresh("selrecv", e.ti.sortOf(et))
			e.assume(st, e.wellTypedDeep(st, et, v))
			if _, isStruct := et.Underlying().(*types.Struct); !isStruct {
				// the received value is meaningful only if this case was chosen
				cp := st.clone()
				cp.pc = tAnd(st.pc, tEq(idx, tInt(int64(i))))
				e.recvAssume(fr, cp, sc.Chan, v, selok)
			}
			vals = append(vals, v)
		} else {
			ch := e.term(fr, st, sc.Chan)
			e.sendClosedObl(st, ch, e.pos(x.Pos()))
			if e.spec == 0 && e.quant == 0 {
				if g, found := e.chanPred(fr, st, sc.Chan, "chaninv_", e.val(fr, st, sc.Send), fr.entryState); found {
					name, _ := chanField(sc.Chan)
					e.oblige(st, "chaninv", "chaninv.send@"+name, tImp(tEq(idx, tInt(int64(i))), g), e.pos(x.Pos()))
				}
			}
		}
	}
	fr.vals[x] = &Tuple{vals}
	return true
}

// initGhosts zero-initialises the ghost state attached to a freshly allocated object.
func (e *Exec) initGhosts(st *State, ptrType types.Type, ref Term) {
	if e.ghostByType == nil {
		e.ghostByType = map[string][]*ssa.Function{}
		for _, pk := range e.w.Pkgs {
			if pk.SSA == nil {
				continue
			}
			for name, m := range pk.SSA.Members {
				fn, ok := m.(*ssa.Function)
				if !ok || !strings.HasPrefix(name, "ghost_") || fn.Signature.Params().Len() != 1 {
					continue
				}
				k := fn.Signature.Params().At(0).Type().String()
				dup := false
				for _, o := range e.ghostByType[k] {
					if o.Name() == name {
						dup = true
					}
				}
				if !dup {
					e.ghostByType[k] = append(e.ghostByType[k], fn)
				}
			}
		}
	}
	for _, fn := range e.ghostByType[ptrType.String()] {
		rt := fn.Signature.Results().At(0).Type()
		rs := e.ti.sortOf(rt)
		e.ghostSorts[fn.Name()] = rs
		name := "G." + fn.Name()
		arr := e.heapComp(st, name, SInt, arraySort(SInt, rs))
		e.setHeap(st, name, tStore(arr, ref, e.ti.zero(rt)))
	}
}

// linkPure: when a concrete value is converted to an interface whose getters have `pure` interface
// contracts, the interface-level function of the boxed value is tied to the concrete method's
// contract result at this moment (the pure declaration says it never changes afterwards).
func (e *Exec) linkPure(st *State, ifaceT, concT types.Type, boxed Term, _ Value, conc Value, where string) {
	if e.quant > 0 || e.spec > 0 {
		return
	}
	n, ok := ifaceT.(*types.Named)
	if !ok || n.Obj().Pkg() == nil {
		return
	}
	it, ok := n.Underlying().(*types.Interface)
	if !ok {
		return
	}
	mset := types.NewMethodSet(concT)
	for i := 0; i < it.NumMethods(); i++ {
		m := it.Method(i)
		ict := e.cs.ByKey["iface:"+n.Obj().Pkg().Path()+"."+n.Obj().Name()+"."+m.Name()]
		if ict == nil || !ict.Pure {
			continue
		}
		sel := mset.Lookup(m.Pkg(), m.Name())
		if sel == nil {
			continue
		}
		cf, ok := sel.Obj().(*types.Func)
		if !ok {
			continue
		}
		fn := e.w.Prog.FuncValue(cf)
		if fn == nil {
			continue
		}
		cct := e.cs.ByKey[fnKey(fn)]
		if cct == nil || len(cct.Ensures) == 0 || len(cct.Requires) > 0 {
			// only unconditional getters are linked (no precondition obligations at a conversion)
			continue
		}
		r, ok2 := e.modularCall(st, cct, fn.Signature, []Value{conc}, where, shortKey(fnKey(fn)))
		if !ok2 {
			continue
		}
		rt, isT := r.(Term)
		if !isT {
			continue
		}
		msig := m.Type().(*types.Signature)
		rsig := types.NewSignatureType(types.NewVar(0, nil, "self", ifaceT), nil, nil, msig.Params(), msig.Results(), false)
		if !pureScalarK(rsig, true) {
			continue
		}
		e.pureAxioms(ict, rsig)
		pv := e.pureResult(st, ict, rsig, []Value{boxed})
		if pt, ok := pv.(Term); ok {
			e.assume(st, e.equal(msig.Results().At(0).Type(), pt, rt))
		}
	}
}

// constArray: the array with every element equal to v.  cvc5 accepts `as const` only with value
// literals, so for other element terms (the empty string of the uninterpreted Str sort) a declared
// array with a defining axiom is used.
func (e *Exec) constArray(sort string, v Term) Term {
	if v.Sort == SInt || v.Sort == SBool || strings.HasPrefix(v.S, "(mkslice") {
		return Term{fmt.Sprintf("((as const %s) %s)", sort, v.S), sort}
	}
	name := "zarr." + smtIdent(sort)
	e.smt.declare(name, sort)
	e.smt.axiom("zarr:"+name, fmt.Sprintf("(assert (forall ((i Int)) (! (= (select %s i) %s) :pattern ((select %s i)))))", name, v.S, name))
	return Term{name, sort}
}

// mapModifiedInLoop: does the function containing the Next instruction update or delete from a map
// of this type anywhere (conservative syntactic check)?
func mapModifiedInLoop(n *ssa.Next, mt *types.Map) bool {
	fn := n.Parent()
	for _, b := range fn.Blocks {
		for _, in := range b.Instrs {
			switch x := in.(type) {
			case *ssa.MapUpdate:
				if types.Identical(x.Map.Type().Underlying(), mt) {
					return true
				}
			case *ssa.Call:
				if bi, ok := x.Call.Value.(*ssa.Builtin); ok && bi.Name() == "delete" {
					if types.Identical(x.Call.Args[0].Type().Underlying(), mt) {
						return true
					}
				}
			}
		}
	}
	return false
}

// assumeChecked: after a safety obligation has been emitted, the condition may be assumed for the
// rest of the path.  In specification code no safety obligation is emitted, so nothing is assumed
// (otherwise a clause like `m.field == x` would silently assume m != nil).
func (e *Exec) assumeChecked(st *State, c Term) {
	if e.spec > 0 {
		return
	}
	e.assume(st, c)
}

// linkGhost: when a *T of the repository is converted to an interface and its package declares
// `pred spec_link_T(x *T) bool`, that predicate is assumed at the conversion.  It is the place to say
// what the interface-level ghost functions of the boxed value mean for this implementation (e.g.
// "what this message's Source yields now is what its reader yields"); the statement must be backed by
// the implementation's own verified contracts, and is listed as an assumption.
func (e *Exec) linkGhost(st *State, concT types.Type, conc Value) {
	if e.spec > 0 || e.quant > 0 {
		return
	}
	pt, ok := concT.Underlying().(*types.Pointer)
	if !ok {
		return
	}
	n, ok := pt.Elem().(*types.Named)
	if !ok || n.Obj().Pkg() == nil {
		return
	}
	pk := e.w.Pkgs[n.Obj().Pkg().Path()]
	name := "spec_link_" + n.Obj().Name()
	if pk == nil || pk.SSA == nil || pk.SSA.Func(name) == nil {
		return
	}
	if g, ok := e.evalSpec(st, n.Obj().Pkg().Path(), name, []Value{conc}, st); ok {
		e.trusted("interface link " + name + ": assumed where a *" + n.Obj().Name() + " becomes an interface value")
		e.assume(st, g)
	}
}
