package main

import (
	"fmt"
	"go/types"
	"strings"

	"golang.org/x/tools/go/ssa"
)

type FuncResult struct {
	Key     string
	Kind    string
	Props   []string
	Obls    []*Obligation
	Errs    []string // unsupported constructs / lost obligations: the function cannot be claimed
	Trust   []string
	Notes   []string
	Exec    *Exec
	Lost    string
}

// lookupFn finds the SSA function for a contract key.
func (w *World) lookupFn(ct *Contract) *ssa.Function {
	pk := w.Pkgs[ct.PkgPath]
	if pk == nil || pk.SSA == nil {
		return nil
	}
	nm := strings.TrimPrefix(ct.Key, ct.PkgPath+".")
	if i := strings.LastIndex(nm, "$"); i > 0 {
		ord := 0
		fmt.Sscanf(nm[i+1:], "%d", &ord)
		parent := w.lookupFn(&Contract{Key: ct.PkgPath + "." + nm[:i], PkgPath: ct.PkgPath})
		if parent == nil || ord < 1 || ord > len(parent.AnonFuncs) {
			return nil
		}
		return parent.AnonFuncs[ord-1]
	}
	if !strings.HasPrefix(nm, "(") {
		return pk.SSA.Func(nm)
	}
	i := strings.Index(nm, ").")
	if i < 0 {
		return nil
	}
	tn := strings.TrimPrefix(nm[1:i], "*")
	mn := nm[i+2:]
	obj := pk.Types.Scope().Lookup(tn)
	if obj == nil {
		return nil
	}
	named, ok := obj.Type().(*types.Named)
	if !ok {
		return nil
	}
	for j := 0; j < named.NumMethods(); j++ {
		m := named.Method(j)
		if m.Name() == mn {
			return w.Prog.FuncValue(m)
		}
	}
	return nil
}

func VerifyFunc(w *World, cs *ContractSet, ct *Contract) *FuncResult {
	res := &FuncResult{Key: ct.Key, Kind: ct.Kind, Props: ct.Serves}
	if l := ct.Attrs["lost"]; l != "" {
		res.Lost = l
		return res
	}
	fn := w.lookupFn(ct)
	if fn == nil {
		res.Lost = "contract target " + ct.Key + " not found"
		return res
	}
	if fn.TypeParams().Len() > 0 || (fn.Signature.Recv() != nil && fn.Signature.RecvTypeParams().Len() > 0) {
		// verify a generic function at a representative instantiation: not supported yet
		res.Errs = append(res.Errs, "generic function: verification of generic bodies is not supported")
		return res
	}
	e := newExec(w, cs, ct.Key, ct.Serves)
	res.Exec = e
	defer func() {
		if r := recover(); r != nil {
			res.Errs = append(res.Errs, fmt.Sprintf("engine panic: %v", r))
			res.Obls = e.obls
			if debugPanic {
				panic(r)
			}
		}
	}()
	st := &State{pc: tTrue, cells: map[*Cell]Value{}, heap: map[string]Term{}, locks: map[string]int{}}
	st.alloc = e.smt.fresh("alloc0", SInt)
	e.entryAlloc = st.alloc
	e.assumeGlobal(tLe(tInt(0), st.alloc))
	var args []Value
	for _, p := range fn.Params {
		v := e.smt.fresh("in."+p.Name(), e.ti.sortOf(p.Type()))
		e.assume(st, e.wellTypedDeep(st, p.Type(), v))
		args = append(args, v)
	}
	// closures: every captured variable is a cell with an arbitrary well-typed initial value
	var bindings []Value
	capCell := map[string]*Ptr{}
	for _, fv := range fn.FreeVars {
		et := fv.Type().(*types.Pointer).Elem()
		c := e.newCell(fv.Name(), et)
		v := e.smt.fresh("cap."+fv.Name(), e.ti.sortOf(et))
		e.assume(st, e.wellTypedDeep(st, et, v))
		st.cells[c] = v
		p := &Ptr{Kind: pCell, Cell: c, Root: et, Type: et}
		bindings = append(bindings, p)
		capCell[fv.Name()] = p
	}
	// clause arguments: captured variables (current values) first, then the parameters
	clauseArgs := func(s *State) []Value {
		var out []Value
		for _, n := range ct.Captured {
			if p, ok := capCell[n]; ok {
				out = append(out, e.load(s, p))
			} else {
				e.unsupported("closure contract names captured variable %s which the closure does not capture", n)
				out = append(out, tInt(0))
			}
		}
		return append(out, args...)
	}
	// receivers of methods under verification are non-nil (a nil receiver panics at the first field access
	// in every method in scope; callers are checked against this as an implicit precondition)
	if fn.Signature.Recv() != nil && len(args) > 0 {
		if _, isPtr := fn.Signature.Recv().Type().Underlying().(*types.Pointer); isPtr {
			e.assume(st, tNot(tEq(args[0].(Term), tInt(0))))
		}
	}
	for _, cl := range ct.Requires {
		if cl.GenFn == "" {
			continue
		}
		g, ok := e.evalSpec(st, ct.PkgPath, cl.GenFn, clauseArgs(st), st)
		if ok {
			e.curAssumeProps = cl.Props
			e.assume(st, g)
			e.curAssumeProps = nil
		}
	}
	for _, u := range ct.Uses {
		e.useLemma(ct, u)
	}
	if e.lockChecking() {
		if lr, mode, ok := e.holdsLock(st, ct, fn, args); ok {
			st.locks[lr.S] = mode
		}
	}
	entry := st.clone()
	e.entry = entry
	e.topArgs = clauseArgs(st)
	e.topCt = ct
	e.probe(st, "vacuity.pre", "entry")
	mods, star := e.collectMods(st, ct, clauseArgs(st))
	e.topMods, e.topStar = mods, star || ct.Kind == "lemma"
	rets, out := e.run(fn, args, bindings, st, ct)
	if out != nil {
		// postconditions are checked per return path (smaller, branch-specific VCs); the merged exit
		// state is used for the frame check
		trs := e.topRets
		if len(trs) == 0 || len(trs) > 64 {
			trs = []retInfo{{out, rets}}
		}
		for ri, tr := range trs {
			if e.lockChecking() {
				// balance: the function returns with exactly the locks it was entered with
				same := len(tr.st.locks) == len(entry.locks)
				for k, v := range entry.locks {
					if tr.st.locks[k] != v {
						same = false
					}
				}
				if !same {
					e.oblige(tr.st, "lock", fmt.Sprintf("lock.balance@r%d", ri+1), tFalse, "a return path leaves with other locks held than at entry")
				}
			}
			all := append(append([]Value{}, clauseArgs(tr.st)...), tr.vals...)
			for i, cl := range ct.Ensures {
				if cl.GenFn == "" {
					continue
				}
				if cl.Assumed {
					e.trusted("assumed clause of " + shortKey(ct.Key) + ": " + oneLine(cl.Expr))
					continue
				}
				if cl.Label == "onpanic" {
					continue
				}
				g, ok := e.evalSpec(tr.st, ct.PkgPath, cl.GenFn, all, entry)
				if !ok {
					continue
				}
				n0 := len(e.obls)
				nm := "post." + clauseName(cl, i)
				if len(trs) > 1 {
					nm = fmt.Sprintf("%s@r%d", nm, ri+1)
				}
				e.oblige(tr.st, "post", nm, g, cl.Line)
				if len(cl.Props) > 0 && len(e.obls) > n0 {
					e.obls[len(e.obls)-1].Props = cl.Props
				}
			}
		}
		if !star && ct.Kind != "lemma" {
			e.frameCheck(entry, out, mods)
		}
		e.probe(out, "vacuity.exit", "exit")
	} else if len(ct.Ensures) > 0 {
		e.note("no path of " + shortKey(ct.Key) + " returns normally")
	}
	if e.nGuard+e.nLockOps > 0 {
		e.note(fmt.Sprintf("lock discipline in %s: %d guarded field accesses checked (%d of them hold syntactically: the guarding lock is in the held set), %d lock operations tracked", shortKey(ct.Key), e.nGuard, e.nGuardSyntactic, e.nLockOps))
	}
	res.Obls = e.obls
	res.Errs = append(res.Errs, e.errs...)
	res.Trust = e.trust
	res.Notes = e.notes
	return res
}

var debugPanic = false

// frameCheck: every heap component that changed may differ only at the locations named by modifies
// (for objects that existed at entry).
func (e *Exec) frameCheck(entry, out *State, mods []*Ptr) {
	for _, k := range sortedKeys(out.heap) {
		nt := out.heap[k]
		var ot Term
		if t, ok := entry.heap[k]; ok {
			ot = t
		} else {
			ot = e.heapComp(entry, k, SInt, nt.Sort)
		}
		if nt.S == ot.S {
			continue
		}
		if g, ok := e.frameFormula(k, ot, nt, mods, entry.alloc); ok {
			e.oblige(out, "frame", "frame."+k, g, "modifies")
		}
	}
}

// frameFormula: component k is unchanged between ot and nt outside the modifies set, for objects
// allocated at entry.
func (e *Exec) frameFormula(k string, ot, nt Term, mods []*Ptr, alloc Term) (Term, bool) {
	var goal string
	alloc0 := alloc.S
	switch {
	case strings.HasPrefix(k, "F.") || strings.HasPrefix(k, "C."):
		var excl []string
		for _, p := range mods {
			if p.Kind != pHeap {
				continue
			}
			for _, l := range leaves(p.Type) {
				var name string
				path := append(append([]int{}, p.Path...), l.path...)
				if _, isStruct := p.Root.Underlying().(*types.Struct); isStruct {
					name, _ = e.ti.fieldComp(p.Root, path)
				} else {
					name, _ = e.ti.cellComp(p.Root)
				}
				if name == k {
					excl = append(excl, fmt.Sprintf("(not (= r %s))", p.Ref.S))
				}
			}
		}
		goal = fmt.Sprintf("(forall ((r Int)) (! (=> (and (< 0 r) (<= r %s) %s) (= (select %s r) (select %s r))) :pattern ((select %s r))))", alloc0, strings.Join(excl, " "), nt.S, ot.S, nt.S)
	case strings.HasPrefix(k, "E."):
		var excl []string
		for _, p := range mods {
			switch p.Kind {
			case pModElems:
				for _, l := range leaves(p.Root) {
					name, _ := e.ti.elemComp(p.Root, l.path)
					if name == k {
						excl = append(excl, fmt.Sprintf("(not (= a %s))", p.Ref.S))
					}
				}
			case pElem:
				for _, l := range leaves(p.Type) {
					name, _ := e.ti.elemComp(p.Root, append(append([]int{}, p.Path...), l.path...))
					if name == k {
						excl = append(excl, fmt.Sprintf("(not (and (= a %s) (= i %s)))", p.Ref.S, p.Idx.S))
					}
				}
			}
		}
		elemLevel := false
		for _, x := range excl {
			if strings.Contains(x, "(= i ") {
				elemLevel = true
			}
		}
		if elemLevel {
			goal = fmt.Sprintf("(forall ((a Int) (i Int)) (! (=> (and (< 0 a) (<= a %s) %s) (= (select (select %s a) i) (select (select %s a) i))) :pattern ((select (select %s a) i))))", alloc0, strings.Join(excl, " "), nt.S, ot.S, nt.S)
		} else {
			// whole backing arrays: one instantiation per array, usable under quantifiers over elements
			goal = fmt.Sprintf("(forall ((a Int)) (! (=> (and (< 0 a) (<= a %s) %s) (= (select %s a) (select %s a))) :pattern ((select %s a))))", alloc0, strings.Join(excl, " "), nt.S, ot.S, nt.S)
		}
	case strings.HasPrefix(k, "G."):
		var excl []string
		for _, p := range mods {
			if p.Kind == pModGhostAll && "G."+p.GhostName == k {
				return tTrue, false
			}
			if p.Kind == pModGhost && "G."+p.GhostName == k {
				excl = append(excl, fmt.Sprintf("(not (= r %s))", p.Ref.S))
			}
		}
		if is := e.ghostIdx[strings.TrimPrefix(k, "G.")]; is != "" && is != SInt {
			// ghost state keyed by a value (e.g. a path string): every key
			goal = fmt.Sprintf("(forall ((r %s)) (! (=> (and true %s) (= (select %s r) (select %s r))) :pattern ((select %s r))))", is, strings.Join(excl, " "), nt.S, ot.S, nt.S)
		} else {
			goal = fmt.Sprintf("(forall ((r Int)) (! (=> (and (< 0 r) (<= r %s) %s) (= (select %s r) (select %s r))) :pattern ((select %s r))))", alloc0, strings.Join(excl, " "), nt.S, ot.S, nt.S)
		}
	case strings.HasPrefix(k, "M."):
		var excl []string
		for _, p := range mods {
			if p.Kind == pModMap {
				mc := e.mapComps(p.Root.Underlying().(*types.Map))
				if mc.dom == k || mc.val == k || mc.card == k {
					excl = append(excl, fmt.Sprintf("(not (= r %s))", p.Ref.S))
				}
			}
		}
		goal = fmt.Sprintf("(forall ((r Int)) (! (=> (and (< 0 r) (<= r %s) %s) (= (select %s r) (select %s r))) :pattern ((select %s r))))", alloc0, strings.Join(excl, " "), nt.S, ot.S, nt.S)
	default:
		return tTrue, false
	}
	return Term{goal, SBool}, true
}

// useLemma adds the universal closure of a proved lemma (a `lemma` contract whose parameters are all
// heap-independent values) as an axiom: forall params. requires ==> ensures, triggered on the
// recursive-spec-function applications of its conclusion.
func (e *Exec) useLemma(ct *Contract, name string) {
	key := name
	if !strings.Contains(name, "/") && !strings.HasPrefix(name, repoModule) {
		key = ct.PkgPath + "." + name
	}
	lct := e.cs.ByKey[key]
	if lct == nil {
		e.unsupported("uses: lemma %s not found", name)
		return
	}
	fn := e.w.lookupFn(lct)
	if fn == nil {
		e.unsupported("uses: lemma function %s not found", name)
		return
	}
	var bound []string
	var args []Value
	var ranges []Term
	for i, p := range fn.Params {
		s := e.ti.sortOf(p.Type())
		if s == SSlice {
			e.unsupported("uses: lemma %s has a heap-dependent parameter %s", name, p.Name())
			return
		}
		nm := fmt.Sprintf("l%d.%s", i, smtIdent(p.Name()))
		bound = append(bound, fmt.Sprintf("(%s %s)", nm, s))
		v := Term{nm, s}
		args = append(args, v)
		if rf := rangeFact(p.Type(), v); rf.S != "true" {
			ranges = append(ranges, rf)
		}
	}
	st := &State{pc: tTrue, cells: map[*Cell]Value{}, heap: map[string]Term{}, locks: map[string]int{}, alloc: tInt(0)}
	e.quant++
	var pres, posts []Term
	for _, cl := range lct.Requires {
		if g, ok := e.evalSpec(st, lct.PkgPath, cl.GenFn, args, st); ok {
			pres = append(pres, g)
		}
	}
	for _, cl := range lct.Ensures {
		if g, ok := e.evalSpec(st, lct.PkgPath, cl.GenFn, args, st); ok {
			posts = append(posts, g)
		}
	}
	e.quant--
	body := tImp(tAnd(append(ranges, pres...)...), tAnd(posts...))
	pats := rfApps(tAnd(posts...).S)
	pat := ""
	if len(pats) > 0 {
		// keep the pattern only if it mentions every bound variable
		all := strings.Join(pats, " ")
		covers := true
		for i, p := range fn.Params {
			if !strings.Contains(all, fmt.Sprintf("l%d.%s", i, smtIdent(p.Name()))) {
				covers = false
			}
		}
		if covers {
			pat = " :pattern (" + all + ")"
		}
	}
	if pat != "" {
		e.smt.axioms = append(e.smt.axioms, fmt.Sprintf("(assert (forall (%s) (! %s%s)))", strings.Join(bound, " "), body.S, pat))
	} else {
		e.smt.axioms = append(e.smt.axioms, fmt.Sprintf("(assert (forall (%s) %s))", strings.Join(bound, " "), body.S))
	}
	e.trusted("lemma " + shortKey(key) + " (proved separately as obligation set " + shortKey(key) + "/*) used as an axiom")
}

// rfApps extracts the distinct applications of recursive spec functions "(rf.xxx ...)" in a term.
func rfApps(s string) []string {
	var out []string
	seen := map[string]bool{}
	for i := 0; i+4 < len(s); i++ {
		if s[i] == '(' && strings.HasPrefix(s[i+1:], "rf.") {
			d := 0
			for j := i; j < len(s); j++ {
				if s[j] == '(' {
					d++
				} else if s[j] == ')' {
					d--
					if d == 0 {
						t := s[i : j+1]
						if !seen[t] {
							seen[t] = true
							out = append(out, t)
						}
						break
					}
				}
			}
		}
	}
	return out
}
