package main

import (
	"flag"
	"fmt"
	"go/ast"
	"go/parser"
	"os"
	"path/filepath"
	"sort"
	"strconv"
	"strings"
	"time"
)

const extPkgPath = repoModule + "/pkg/zzvcext"

type Session struct {
	W  *World
	CS *ContractSet
}

// loadAll loads the repository, parses all contracts, generates clause functions and builds SSA.
func loadAll(repo, extDir string, patterns []string) (*Session, error) {
	if recorded == nil {
		loadBindings("/verif/bindings.json")
	}
	w, err := LoadWorld(repo, patterns)
	if err != nil {
		return nil, err
	}
	cs := &ContractSet{ByKey: map[string]*Contract{}, Preds: map[string]bool{}}
	// external contracts: synthetic package
	if extDir != "" {
		files, _ := filepath.Glob(filepath.Join(extDir, "*.go"))
		sort.Strings(files)
		if len(files) > 0 {
			pk := &Pkg{Path: extPkgPath, Dir: extDir}
			for _, fn := range files {
				f, err := parser.ParseFile(w.Fset, fn, nil, parser.ParseComments|parser.SkipObjectResolution)
				if err != nil {
					return nil, err
				}
				pk.Files = append(pk.Files, f)
				for _, im := range f.Imports {
					p, _ := strconv.Unquote(im.Path.Value)
					pk.Imports = append(pk.Imports, p)
				}
			}
			w.Pkgs[extPkgPath] = pk
			w.Order = append([]string{extPkgPath}, w.Order...)
		}
	}
	for _, path := range w.Order {
		pk := w.Pkgs[path]
		for _, f := range pk.Files {
			if !hasContractComments(f) {
				continue
			}
			cts, err := parseContractComments(w.Fset, f, path)
			if err != nil {
				return nil, err
			}
			for _, c := range cts {
				if old, dup := cs.ByKey[c.Key]; dup {
					return nil, fmt.Errorf("duplicate contract for %s (%s and %s)", c.Key, old.Pos, c.Pos)
				}
				cs.ByKey[c.Key] = c
				cs.List = append(cs.List, c)
			}
		}
	}
	if err := Generate(w, cs); err != nil {
		return nil, err
	}
	if err := w.TypeCheck(); err != nil {
		return nil, err
	}
	w.BuildSSA()
	return &Session{W: w, CS: cs}, nil
}

func hasContractComments(f *ast.File) bool {
	for _, cg := range f.Comments {
		for _, c := range cg.List {
			if isContractComment(c.Text) {
				return true
			}
		}
	}
	return false
}

func main() {
	if len(os.Args) < 2 {
		fmt.Fprintln(os.Stderr, "usage: govc <check|fn|gen> ...")
		os.Exit(2)
	}
	switch os.Args[1] {
	case "fn":
		cmdFn(os.Args[2:])
	case "gen":
		cmdGen(os.Args[2:])
	case "helpers":
		// govc helpers <pkgname> [notag]: prints the helper file for a package
		fmt.Print(HelperFileText(os.Args[2], len(os.Args) < 4))
	case "check":
		cmdCheck(os.Args[2:])
	case "bind":
		cmdBind(os.Args[2:])
	default:
		fmt.Fprintln(os.Stderr, "unknown command")
		os.Exit(2)
	}
}

func cmdGen(args []string) {
	fs := flag.NewFlagSet("gen", flag.ExitOnError)
	repo := fs.String("repo", "/repo", "")
	ext := fs.String("ext", "/verif/contracts/ext", "")
	fs.Parse(args)
	s, err := loadAll(*repo, *ext, []string{"./..."})
	if err != nil {
		fmt.Fprintln(os.Stderr, err)
		os.Exit(2)
	}
	for _, p := range s.W.Order {
		if pk := s.W.Pkgs[p]; pk.GenSrc != "" {
			fmt.Printf("// ===== %s\n%s\n", p, pk.GenSrc)
		}
	}
}

// cmdFn verifies the functions whose key contains one of the given substrings (development aid).
func cmdFn(args []string) {
	fs := flag.NewFlagSet("fn", flag.ExitOnError)
	repo := fs.String("repo", "/repo", "")
	ext := fs.String("ext", "/verif/contracts/ext", "")
	timeout := fs.Int("t", 10, "")
	dir := fs.String("work", "/verif/work", "")
	verbose := fs.Bool("v", false, "")
	dump := fs.Bool("dumpssa", false, "")
	fs.BoolVar(&debugPanic, "panic", false, "")
	fs.Parse(args)
	t0 := time.Now()
	s, err := loadAll(*repo, *ext, []string{"./..."})
	if err != nil {
		fmt.Fprintln(os.Stderr, err)
		os.Exit(2)
	}
	fmt.Printf("loaded in %.1fs\n", time.Since(t0).Seconds())
	os.MkdirAll(*dir, 0o755)
	bad := 0
	for _, ct := range s.CS.List {
		if ct.Kind != "func" && ct.Kind != "lemma" {
			continue
		}
		if ct.Inline && len(ct.Ensures) == 0 {
			continue
		}
		if ct.Trusted || ct.Opaque {
			continue
		}
		match := false
		for _, a := range fs.Args() {
			if strings.Contains(ct.Key, a) {
				match = true
			}
		}
		if !match {
			continue
		}
		if *dump {
			if fn := s.W.lookupFn(ct); fn != nil {
				fn.WriteTo(os.Stdout)
			}
		}
		t1 := time.Now()
		r := VerifyFunc(s.W, s.CS, ct)
		fmt.Printf("== %s: %d obligations generated in %.2fs\n", shortKey(ct.Key), len(r.Obls), time.Since(t1).Seconds())
		if r.Lost != "" {
			fmt.Printf("   LOST: %s\n", r.Lost)
			bad++
			continue
		}
		for _, er := range r.Errs {
			fmt.Printf("   UNSUPPORTED: %s\n", er)
			bad++
		}
		for _, n := range r.Notes {
			fmt.Printf("   note: %s\n", n)
		}
		if r.Exec == nil {
			continue
		}
		srs := solveAll(r.Exec, r.Obls, *dir, *timeout, 0, false, 16)
		for _, sr := range srs {
			ok := sr.Status == "discharged" || sr.Status == "nonvacuous"
			if !ok {
				bad++
			}
			if *verbose || !ok {
				fmt.Printf("   %-12s %-60s %-10s %.2fs %v  [%s]\n", sr.Status, sr.Obl.Name, sr.Solver, sr.Time, sr.Answers, sr.Obl.Where)
			}
		}
		if *verbose {
			for _, t := range r.Trust {
				fmt.Printf("   trusted: %s\n", t)
			}
		}
	}
	if bad > 0 {
		os.Exit(1)
	}
}
