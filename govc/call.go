package main

import (
	"fmt"
	"go/types"
	"strings"

	"golang.org/x/tools/go/ssa"
)

// fnKey returns the contract key of an SSA function.
func fnKey(fn *ssa.Function) string {
	if o := fn.Origin(); o != nil {
		fn = o
	}
	if fn.Signature.Recv() != nil {
		rt := fn.Signature.Recv().Type()
		star := ""
		if p, ok := rt.(*types.Pointer); ok {
			star = "*"
			rt = p.Elem()
		}
		if n, ok := rt.(*types.Named); ok {
			pkg := ""
			if n.Obj().Pkg() != nil {
				pkg = n.Obj().Pkg().Path()
			}
			if strings.HasPrefix(pkg, repoModule) {
				return fmt.Sprintf("%s.(%s%s).%s", pkg, star, n.Obj().Name(), fn.Name())
			}
			return fmt.Sprintf("(%s%s.%s).%s", star, pkg, n.Obj().Name(), fn.Name())
		}
	}
	if fn.Parent() != nil {
		// anonymous function: parent key + "$N"
		nm := fn.Name()
		if i := strings.LastIndex(nm, "$"); i >= 0 {
			return fnKey(fn.Parent()) + nm[i:]
		}
		return fnKey(fn.Parent()) + "$" + nm
	}
	if fn.Pkg != nil {
		return fn.Pkg.Pkg.Path() + "." + fn.Name()
	}
	return fn.String()
}

func isRepoFn(fn *ssa.Function) bool {
	if o := fn.Origin(); o != nil {
		fn = o
	}
	for fn.Parent() != nil {
		fn = fn.Parent()
	}
	if fn.Pkg != nil {
		return strings.HasPrefix(fn.Pkg.Pkg.Path(), repoModule)
	}
	if fn.Signature.Recv() != nil {
		rt := fn.Signature.Recv().Type()
		if p, ok := rt.(*types.Pointer); ok {
			rt = p.Elem()
		}
		if n, ok := rt.(*types.Named); ok && n.Obj().Pkg() != nil {
			return strings.HasPrefix(n.Obj().Pkg().Path(), repoModule)
		}
	}
	return false
}

func (e *Exec) call(fr *frame, st *State, x *ssa.Call, c *ssa.CallCommon) bool {
	var args []Value
	for _, a := range c.Args {
		args = append(args, e.val(fr, st, a))
	}
	fnv := e.val(fr, st, c.Value)
	r, ok := e.callWith(fr, st, x, c, fnv, args)
	if !ok {
		return false
	}
	if x != nil {
		fr.vals[x] = r
	}
	return true
}

// havocResult produces fresh, well-typed values for a result type.
func (e *Exec) freshOf(st *State, name string, t types.Type) Value {
	if tp, ok := t.(*types.Tuple); ok {
		if tp.Len() == 0 {
			return &Tuple{}
		}
		if tp.Len() == 1 {
			return e.freshOf(st, name, tp.At(0).Type())
		}
		var vs []Value
		for i := 0; i < tp.Len(); i++ {
			vs = append(vs, e.freshOf(st, fmt.Sprintf("%s.%d", name, i), tp.At(i).Type()))
		}
		return &Tuple{vs}
	}
	v := e.smt.fresh(name, e.ti.sortOf(t))
	e.assume(st, e.wellTyped(st, t, v))
	return v
}

func (e *Exec) callWith(fr *frame, st *State, x *ssa.Call, c *ssa.CallCommon, fnv Value, args []Value) (Value, bool) {
	where := e.pos(c.Pos())
	var resType types.Type = c.Signature().Results()
	if c.IsInvoke() {
		return e.invoke(fr, st, c, fnv, args, where)
	}
	switch f := fnv.(type) {
	case *ssa.Builtin:
		return e.builtin(fr, st, c, f, args, where)
	case *FuncVal:
		return e.callFn(fr, st, c, f.Fn, nil, args, where)
	case *Closure:
		return e.callFn(fr, st, c, f.Fn, f.Bindings, args, where)
	}
	// a function-typed value of unknown origin (e.g. a parameter): it may do anything to the heap
	e.trusted("calls through function-typed values of unknown origin havoc the whole heap and return arbitrary values")
	// ghost call log of the function value: how often it has been called, and what the last call returned
	var fterm Term
	haveF := false
	if ft, ok := fnv.(Term); ok && e.spec == 0 && e.quant == 0 {
		fterm, haveF = ft, true
	}
	var oldCalls Term
	if haveF {
		e.ghostSorts["ghost_fcalls"] = SInt
		oldCalls = e.smt.define("fcalls", tSelect(e.heapComp(st, "G.ghost_fcalls", SInt, arraySort(SInt, SInt)), fterm, SInt))
	}
	e.havocAllHeap(st)
	if haveF {
		arr := e.heapComp(st, "G.ghost_fcalls", SInt, arraySort(SInt, SInt))
		e.setHeap(st, "G.ghost_fcalls", tStore(arr, fterm, tAdd(oldCalls, tInt(1))))
	}
	if e.topCt != nil && e.depth <= 1 {
		for _, cl := range e.topCt.CallbackInv {
			if g, ok := e.evalSpec(st, e.topCt.PkgPath, cl.GenFn, e.topArgs, st); ok {
				e.trusted("callbackinv of " + shortKey(e.topCt.Key) + ": a callback cannot break an invariant over unexported state (it can reach that state only through methods that are verified to preserve it)")
				e.assume(st, g)
			}
		}
	}
	res := e.freshOf(st, "dyn", resType)
	if haveF {
		if rt, ok := res.(Term); ok && rt.Sort == SBool {
			e.ghostSorts["ghost_flastRet"] = SBool
			arr := e.heapComp(st, "G.ghost_flastRet", SInt, arraySort(SInt, SBool))
			e.setHeap(st, "G.ghost_flastRet", tStore(arr, fterm, rt))
		}
	}
	return res, true
}

func wrapResults(vs []Value, sig *types.Signature) Value {
	n := sig.Results().Len()
	if n == 0 {
		return &Tuple{}
	}
	if n == 1 {
		if len(vs) == 0 {
			return nil
		}
		return vs[0]
	}
	return &Tuple{vs}
}

func unwrapResults(v Value, n int) []Value {
	if n == 0 {
		return nil
	}
	if n == 1 {
		return []Value{v}
	}
	return v.(*Tuple).Vals
}

func (e *Exec) callFn(fr *frame, st *State, c *ssa.CallCommon, fn *ssa.Function, bindings []Value, args []Value, where string) (Value, bool) {
	e.curCall, e.curFrame = c, fr
	name := fn.Name()
	if o := fn.Origin(); o != nil {
		name = o.Name()
	}
	sig := fn.Signature
	// engine intrinsics
	switch name {
	case "specAssert":
		g := e.asTerm(st, args[0], types.Typ[types.Bool])
		e.oblige(st, "lemma", "assert", g, where)
		e.assume(st, g)
		return &Tuple{}, true
	case "specAssume":
		g := e.asTerm(st, args[0], types.Typ[types.Bool])
		e.trusted("specAssume at " + where)
		e.assume(st, g)
		return &Tuple{}, true
	case "vcForall", "vcExists":
		return e.quantifier(fr, st, name == "vcForall", args[0], where), true
	case "vcTrigger1", "vcTrigger2", "vcTrigger3":
		for i, a := range args {
			e.triggers = append(e.triggers, e.asTerm(st, a, sig.Params().At(i).Type()))
		}
		return &Tuple{}, true
	case "vcOldBegin":
		if st.oldMode == 0 {
			if o := e.curOld(); o != nil {
				st.oldView = o.clone()
				st.oldView.oldMode = 0
				st.oldView.oldView = nil
			}
		}
		st.oldMode++
		return tInt(0), true
	case "vcOld":
		st.oldMode--
		if st.oldMode == 0 {
			st.oldView = nil
		}
		return args[1], true
	case "vcMod1":
		if e.modCollect != nil {
			*e.modCollect = append(*e.modCollect, e.asPtr(args[0], sig.Params().At(0).Type()))
		}
		return &Tuple{}, true
	case "vcModElems":
		if e.modCollect != nil {
			sl := sig.Params().At(0).Type().Underlying().(*types.Slice)
			s := e.asTerm(st, args[0], sig.Params().At(0).Type())
			*e.modCollect = append(*e.modCollect, &Ptr{Kind: pModElems, Ref: slArr(s), Root: sl.Elem(), Type: sl.Elem()})
		}
		return &Tuple{}, true
	case "vcModMap":
		if e.modCollect != nil {
			m := e.asTerm(st, args[0], sig.Params().At(0).Type())
			*e.modCollect = append(*e.modCollect, &Ptr{Kind: pModMap, Ref: m, Root: sig.Params().At(0).Type(), Type: sig.Params().At(0).Type()})
		}
		return &Tuple{}, true
	case "vcSameMap":
		return tEq(e.asTerm(st, args[0], sig.Params().At(0).Type()), e.asTerm(st, args[1], sig.Params().At(1).Type())), true
	case "vcTokBytes":
		// a function of the bytes the slice holds now (array contents, offset, length)
		sl := e.asTerm(st, args[0], c.Args[0].Type())
		name, srt := e.ti.elemComp(types.Typ[types.Uint8], nil)
		as := arraySort(SInt, srt)
		H := e.heapComp(st, name, SInt, arraySort(SInt, as))
		e.smt.declareFun("tok.bytes", []string{as, SInt, SInt}, SInt)
		return app(SInt, "tok.bytes", tSelect(H, slArr(sl), as), slOff(sl), slLen(sl)), true
	case "vcTokStr":
		e.smt.declareFun("tok.str", []string{SStr}, SInt)
		return app(SInt, "tok.str", e.asTerm(st, args[0], c.Args[0].Type())), true
	case "vcTokCat":
		e.tokAxioms()
		return app(SInt, "tok.cat", e.asTerm(st, args[0], c.Args[0].Type()), e.asTerm(st, args[1], c.Args[1].Type())), true
	case "vcTokEmpty":
		e.tokAxioms()
		return Term{"tok.empty", SInt}, true
	case "vcSameSlice":
		return tEq(e.asTerm(st, args[0], sig.Params().At(0).Type()), e.asTerm(st, args[1], sig.Params().At(1).Type())), true
	case "vcElemsOf":
		sl := sig.Params().At(0).Type().Underlying().(*types.Slice)
		sv := e.asTerm(st, args[0], sig.Params().At(0).Type())
		name, srt := e.ti.elemComp(sl.Elem(), nil)
		if _, isStruct := sl.Elem().Underlying().(*types.Struct); isStruct {
			e.unsupported("vcElemsOf on a slice of structs")
		}
		as := arraySort(SInt, srt)
		H := e.heapComp(st, name, SInt, arraySort(SInt, as))
		return tSelect(H, slArr(sv), as), true
	case "vcOff":
		return slOff(e.asTerm(st, args[0], sig.Params().At(0).Type())), true
	case "vcSeqAt":
		q := e.asTerm(st, args[0], sig.Params().At(0).Type())
		i := e.asTerm(st, args[1], types.Typ[types.Int])
		return tSelect(q, i, e.ti.sortOf(sig.Results().At(0).Type())), true
	case "vcIte":
		c0 := e.asTerm(st, args[0], types.Typ[types.Bool])
		return tIte(c0, e.asTerm(st, args[1], sig.Params().At(1).Type()), e.asTerm(st, args[2], sig.Params().At(2).Type())), true
	case "vcHas":
		mt := sig.Params().At(0).Type().Underlying().(*types.Map)
		m := e.asTerm(st, args[0], sig.Params().At(0).Type())
		k := e.asTerm(st, args[1], sig.Params().At(1).Type())
		mc := e.mapComps(mt)
		dom := tSelect(e.heapComp(st, mc.dom, SInt, arraySort(SInt, mc.domSort)), m, mc.domSort)
		return tAnd(tNot(tEq(m, tInt(0))), tSelect(dom, k, SBool)), true
	case "vcIn":
		sset := e.asTerm(st, args[0], sig.Params().At(0).Type())
		k := e.asTerm(st, args[1], sig.Params().At(1).Type())
		return tSelect(sset, k, SBool), true
	case "vcMapSeq":
		return e.mapSeq(st, args[0], sig, where), true
	case "vcByteStr":
		return app(SStr, "sbyte", e.asTerm(st, args[0], types.Typ[types.Uint8])), true
	case "vcFresh":
		old := e.curOld()
		t := e.asTerm(st, args[0], sig.Params().At(0).Type())
		if t.Sort == SSlice {
			t = slArr(t)
		}
		if old == nil {
			return tTrue, true
		}
		return tAnd(tLt(old.alloc, t), tLe(t, st.alloc)), true
	}
	if strings.HasPrefix(name, "ghost_") {
		return e.ghostLoad(st, fn, args), true
	}
	if name == "vcModGhostAll" {
		if e.modCollect != nil {
			if cst, ok := c.Args[0].(*ssa.Const); ok {
				*e.modCollect = append(*e.modCollect, &Ptr{Kind: pModGhostAll, GhostName: ghostCanon(constantString(cst))})
			}
		}
		return &Tuple{}, true
	}
	if name == "vcModGhost" {
		if e.modCollect != nil {
			if cst, ok := c.Args[0].(*ssa.Const); ok {
				gname := ghostCanon(constantString(cst))
				ref := e.asTerm(st, args[1], sig.Params().At(1).Type())
				*e.modCollect = append(*e.modCollect, &Ptr{Kind: pModGhost, Ref: ref, GhostName: gname})
			}
		}
		return &Tuple{}, true
	}
	if fn.Parent() != nil && fn.Blocks != nil {
		// anonymous function: execute inline (with the loop clauses of its own contract, if any)
		rs, out := e.runInline(fn, args, bindings, st, e.cs.ByKey[fnKey(fn)])
		if out == nil {
			return nil, false
		}
		*st = *out
		return wrapResults(rs, sig), true
	}
	key := fnKey(fn)
	ct := e.cs.ByKey[key]
	if isRepoFn(fn) {
		if ct != nil && ct.Opaque {
			return e.modularCall(st, ct, fn.Signature, args, where, shortKey(key))
		}
		if strings.HasPrefix(name, "spec_") || strings.HasPrefix(name, "Spec_") || strings.HasPrefix(name, "Ghost_") || e.cs.Preds[key] {
			return e.specCall(fn, args, st, where)
		}
		if strings.HasPrefix(name, "vc_") && fn.Blocks != nil {
			return e.specCall(fn, args, st, where)
		}
		if ct != nil && ct.Inline && fn.Blocks != nil {
			rs, out := e.runInline(fn, args, nil, st, ct)
			if out == nil {
				return nil, false
			}
			*st = *out
			return wrapResults(rs, sig), true
		}
		if ct != nil {
			return e.modularCall(st, ct, fn.Signature, args, where, shortKey(key))
		}
		if fn.Synthetic != "" && fn.Blocks != nil {
			rs, out := e.runInline(fn, args, bindings, st, nil)
			if out == nil {
				return nil, false
			}
			*st = *out
			return wrapResults(rs, sig), true
		}
		if fn.Blocks != nil && !hasCycle(fn) && e.depth < 12 {
			// a loop-free repository function without a contract (e.g. a helper extracted by a refactoring)
			// is executed in place: the caller's obligations then speak about its real body
			e.note(fmt.Sprintf("%s has no contract: its body is executed in place at %s", shortKey(key), where))
			rs, out := e.runInline(fn, args, nil, st, nil)
			if out == nil {
				return nil, false
			}
			*st = *out
			return wrapResults(rs, sig), true
		}
		e.unsupported("call of %s (no contract) at %s", shortKey(key), where)
		return e.freshOf(st, "nocontract", sig.Results()), true
	}
	// external code
	if op, ok := isLockFn(key); ok && len(args) > 0 {
		e.trusted("locks: sequentially a no-op; under the C09 check the set of held locks is tracked (lock discipline)")
		e.lockOp(st, op, args[0], fn.Signature.Recv().Type(), where)
		return &Tuple{}, true
	}
	if ct != nil {
		return e.modularCall(st, ct, fn.Signature, args, where, key)
	}
	if v, ok := e.extBuiltinC(st, c, fn, key, args, where); ok {
		return v, true
	}
	if fn.Synthetic != "" && fn.Blocks != nil {
		rs, out := e.runInline(fn, args, bindings, st, nil)
		if out == nil {
			return nil, false
		}
		*st = *out
		return wrapResults(rs, sig), true
	}
	e.unsupported("call of external %s (no contract) at %s", key, where)
	return e.freshOf(st, "ext", sig.Results()), true
}

func (e *Exec) runInline(fn *ssa.Function, args, bindings []Value, st *State, ct *Contract) ([]Value, *State) {
	k := fn.String()
	for _, s := range e.inlineStack {
		if s == k {
			e.unsupported("recursive inlining of %s", k)
			return nil, st
		}
	}
	e.inlineStack = append(e.inlineStack, k)
	defer func() { e.inlineStack = e.inlineStack[:len(e.inlineStack)-1] }()
	return e.run(fn, args, bindings, st, ct)
}

// specCall executes a specification function inline on a copy of the state (spec code is pure).
func (e *Exec) specCall(fn *ssa.Function, args []Value, st *State, where string) (Value, bool) {
	k := fn.String()
	for _, s := range e.inlineStack {
		if s == k {
			return e.recSpecApp(fn, args, st), true
		}
	}
	if e.recFns[k] {
		return e.recSpecApp(fn, args, st), true
	}
	if isRecursive(fn) {
		e.recFns[k] = true
		return e.recSpecApp(fn, args, st), true
	}
	e.spec++
	defer func() { e.spec-- }()
	cp := st.clone()
	rs, out := e.runInline(fn, args, nil, cp, nil)
	if out == nil {
		e.unsupported("specification function %s does not return at %s", fn.Name(), where)
		return e.freshOf(st, "spec", fn.Signature.Results()), true
	}
	return wrapResults(rs, fn.Signature), true
}

func isRecursive(fn *ssa.Function) bool {
	for _, b := range fn.Blocks {
		for _, in := range b.Instrs {
			if c, ok := in.(*ssa.Call); ok {
				if callee := c.Call.StaticCallee(); callee == fn {
					return true
				}
			}
		}
	}
	return false
}

func (e *Exec) curOld() *State {
	if len(e.oldHeaps) == 0 {
		return nil
	}
	return e.oldHeaps[len(e.oldHeaps)-1]
}

// evalSpec runs a generated clause function and returns its boolean/int result term.
func (e *Exec) evalSpec(st *State, pkgPath, genFn string, args []Value, old *State) (Term, bool) {
	pk := e.w.Pkgs[pkgPath]
	if pk == nil || pk.SSA == nil {
		e.unsupported("no package %s for clause %s", pkgPath, genFn)
		return tTrue, false
	}
	fn := pk.SSA.Func(genFn)
	if fn == nil {
		e.unsupported("generated clause function %s missing", genFn)
		return tTrue, false
	}
	if fn.TypeParams().Len() > 0 {
		e.unsupported("generic clause function %s", genFn)
		return tTrue, false
	}
	e.spec++
	e.oldHeaps = append(e.oldHeaps, old)
	defer func() { e.spec--; e.oldHeaps = e.oldHeaps[:len(e.oldHeaps)-1] }()
	cp := st.clone()
	cp.pc = st.pc
	rs, out := e.runInline(fn, args, nil, cp, nil)
	if out == nil || len(rs) != 1 {
		e.unsupported("clause function %s did not produce a value", genFn)
		return tTrue, false
	}
	t, ok := rs[0].(Term)
	if !ok {
		e.unsupported("clause %s produced %T", genFn, rs[0])
		return tTrue, false
	}
	return t, true
}

// collectMods runs the modifies function and returns the locations it names.
func (e *Exec) collectMods(st *State, ct *Contract, args []Value) ([]*Ptr, bool) {
	if ct.ModFn == "" {
		star := false
		for _, m := range ct.Modifies {
			if m == "*" {
				star = true
			}
		}
		return nil, star
	}
	star := false
	for _, m := range ct.Modifies {
		if m == "*" {
			star = true
		}
	}
	pk := e.w.Pkgs[ct.PkgPath]
	fn := pk.SSA.Func(ct.ModFn)
	if fn == nil {
		e.unsupported("modifies function %s missing", ct.ModFn)
		return nil, star
	}
	e.spec++
	e.modCollect = &[]*Ptr{}
	defer func() { e.spec--; e.modCollect = nil }()
	cp := st.clone()
	e.runInline(fn, args, nil, cp, nil)
	return *e.modCollect, star
}

// havocLoc replaces the contents of a location by a fresh well-typed value.
// ghostLoad reads ghost state attached to an object: ghost_x(obj) is component G.ghost_x at obj.
func (e *Exec) ghostLoad(st *State, fn *ssa.Function, args []Value) Value {
	name := fn.Name()
	name = ghostCanon(name)
	rs := e.ti.sortOf(fn.Signature.Results().At(0).Type())
	ref := e.asTerm(st, args[0], fn.Signature.Params().At(0).Type())
	e.ghostSorts[name] = rs
	e.ghostIdx[name] = ref.Sort
	arr := e.heapComp(st, "G."+name, ref.Sort, arraySort(ref.Sort, rs))
	v := tSelect(arr, ref, rs)
	if e.quant == 0 {
		e.assume(st, e.wellTyped(st, fn.Signature.Results().At(0).Type(), v))
	}
	return v
}

func (e *Exec) havocLoc(st *State, p *Ptr) {
	if p.Kind == pModGhostAll {
		name := "G." + p.GhostName
		is, rs := e.ghostIdxOf(p.GhostName), e.ghostSortOf(p.GhostName)
		st.heap[name] = e.smt.fresh("hv."+name, arraySort(is, rs))
		return
	}
	if p.Kind == pModGhost {
		name := "G." + p.GhostName
		rs, ok := e.ghostSorts[p.GhostName]
		if !ok {
			rs = e.ghostSortOf(p.GhostName)
		}
		arr := e.heapComp(st, name, p.Ref.Sort, arraySort(p.Ref.Sort, rs))
		e.setHeap(st, name, tStore(arr, p.Ref, e.smt.fresh("hv", rs)))
		return
	}
	if p.Kind == pModElems {
		// all elements of the backing array
		for _, l := range leaves(p.Root) {
			name, s := e.ti.elemComp(p.Root, l.path)
			as := arraySort(SInt, s)
			arr := e.heapComp(st, name, SInt, arraySort(SInt, as))
			e.setHeap(st, name, tStore(arr, p.Ref, e.smt.fresh("hv", as)))
		}
		return
	}
	if p.Kind == pModMap {
		mt := p.Root.Underlying().(*types.Map)
		mc := e.mapComps(mt)
		for _, cs := range [][2]string{{mc.dom, mc.domSort}, {mc.val, mc.valSort}, {mc.card, SInt}} {
			arr := e.heapComp(st, cs[0], SInt, arraySort(SInt, cs[1]))
			e.setHeap(st, cs[0], tStore(arr, p.Ref, e.smt.fresh("hv", cs[1])))
		}
		return
	}
	for _, l := range leaves(p.Type) {
		lp := *p
		lp.Path = append(append([]int{}, p.Path...), l.path...)
		lp.Type = l.typ
		v := e.smt.fresh("hv", e.ti.sortOf(l.typ))
		e.store(st, &lp, v)
		e.assume(st, e.wellTyped(st, l.typ, v))
	}
}

func (e *Exec) havocAllHeap(st *State) {
	// new heap epoch: every component, touched so far or not, becomes unknown
	e.nepoch++
	st.epoch = e.nepoch
	st.etree = nil
	for _, k := range sortedKeys(st.heap) {
		delete(st.heap, k)
	}
	na := e.smt.fresh("alloc", SInt)
	e.assume(st, tLe(st.alloc, na))
	st.alloc = na
	e.havocEverything = true
}

// modularCall applies a contract at a call site: assert pre, havoc modifies, assume post.
func (e *Exec) modularCall(st *State, ct *Contract, sig *types.Signature, args []Value, where string, calleeName string) (Value, bool) {
	callerFrame, callerCall := e.curFrame, e.curCall
	if ct.Attrs["lost"] != "" {
		e.unsupported("contract of %s is unbound: %s", calleeName, ct.Attrs["lost"])
	}
	if ct.Kind == "ext" || ct.Trusted {
		e.trusted("assumed contract of " + calleeName)
	}
	// argument terms (contracts take SMT-encodable values)
	var targs []Value
	nparams := sig.Params().Len()
	off := 0
	if sig.Recv() != nil {
		off = 1
	}
	for i, a := range args {
		var t types.Type
		if i < off {
			t = sig.Recv().Type()
		} else if i-off < nparams {
			t = sig.Params().At(i - off).Type()
		}
		switch a.(type) {
		case *Closure, *FuncVal:
			targs = append(targs, a)
		default:
			if t != nil {
				targs = append(targs, e.asTerm(st, a, t))
			} else {
				targs = append(targs, a)
			}
		}
	}
	if ct.Key == e.fnKey && e.spec == 0 {
		// recursive call of the function under verification: well-founded only with a decreasing measure
		if ct.Decreases == nil || ct.Decreases.GenFn == "" {
			e.unsupported("recursive call of %s without a decreases clause", calleeName)
		} else if e.entry != nil && e.topArgs != nil {
			m0, ok0 := e.evalSpec(e.entry, ct.PkgPath, ct.Decreases.GenFn, e.topArgs, e.entry)
			m1, ok1 := e.evalSpec(st, ct.PkgPath, ct.Decreases.GenFn, targs, st)
			if ok0 && ok1 {
				e.oblige(st, "decreases", "wf.decreases@"+calleeName, tAnd(tLe(tInt(0), m0), tLt(m1, m0)), where)
			}
		}
	}
	for i, cl := range ct.Requires {
		if cl.GenFn == "" {
			continue
		}
		g, ok := e.evalSpec(st, ct.PkgPath, cl.GenFn, targs, st)
		if !ok {
			continue
		}
		nm := fmt.Sprintf("pre.%s@%s", clauseName(cl, i), calleeName)
		n0 := len(e.obls)
		e.oblige(st, "pre", nm, g, where)
		if len(cl.Props) > 0 && len(e.obls) > n0 {
			// a precondition stated for one property only (e.g. the hypothesis of a crash invariant) is
			// checked at the call sites in that property's run; every caller must serve that property
			e.obls[len(e.obls)-1].Props = cl.Props
			if e.topCt != nil {
				for _, pr := range cl.Props {
					if !has(e.topCt.Serves, pr) {
						e.trusted(fmt.Sprintf("precondition %s of %s is stated for %s and NOT checked at the call in %s, which does not serve %s", clauseName(cl, i), calleeName, pr, shortKey(e.topCt.Key), pr))
					}
				}
			}
			// assumed after the call in that property's run only: in the runs of other properties the
			// obligation is not checked, and a precondition that does not hold would make everything after the
			// call vacuous there
			e.curAssumeProps = cl.Props
			e.assume(st, g)
			e.curAssumeProps = nil
			continue
		}
		e.assume(st, g)
	}
	if e.lockChecking() {
		if ct.Attrs["holds"] != "" {
			if cfn := e.w.lookupFn(ct); cfn != nil {
				if lr, mode, ok := e.holdsLock(st, ct, cfn, args); ok {
					e.oblige(st, "lock", "lock.holds@"+calleeName, e.heldTerm(st, lr, mode), where)
				}
			}
		} else if len(st.locks) > 0 && ct.Kind == "func" {
			if cfn := e.w.lookupFn(ct); cfn != nil && ct.Attrs["leaflock"] == "" && e.fnAcquires(cfn, 0) {
				e.oblige(st, "lock", "lock.order@"+calleeName, tFalse, where+": call of a function that acquires locks while a lock is held")
			}
		}
		if ct.Attrs["fs-mutating"] != "" && e.topCt != nil && e.topCt.Attrs["fslock"] != "" {
			w := false
			for _, m := range st.locks {
				if m == lockWrite {
					w = true
				}
			}
			if !w {
				e.oblige(st, "lock", "lock.fswrite@"+calleeName, tFalse, where+": file-system mutation without a write lock")
			}
		}
	}
	old := st.clone()
	var panicState *State
	mods, star := e.collectMods(st, ct, targs)
	e.curFrame, e.curCall = callerFrame, callerCall // (evaluating clauses runs spec code, which has frames of its own)
	if !ct.Pure {
		// the callee may allocate (before the havoc: havocked locations may hold the new references)
		na := e.smt.fresh("alloc", SInt)
		e.assume(st, tLe(st.alloc, na))
		st.alloc = na
	}
	if star {
		e.havocAllHeap(st)
	}
	for _, p := range mods {
		e.havocLoc(st, p)
	}
	if hp := ct.Attrs["havoc-pointee"]; hp != "" && e.curCall != nil && e.curFrame != nil {
		// the callee writes through the pointer passed (boxed in an interface) as argument hp
		idx := 0
		fmt.Sscanf(hp, "%d", &idx)
		if idx < len(targs) {
			var pv *Ptr
			var pt *types.Pointer
			if bt, ok := targs[idx].(Term); ok {
				key := bt.S
				for i := 0; i < 8; i++ {
					if _, ok := e.boxInfo[key]; ok {
						break
					}
					nx, ok := e.smt.alias[key]
					if !ok {
						break
					}
					key = nx
				}
				if bi, ok := e.boxInfo[key]; ok {
					if p, ok := bi.t.Underlying().(*types.Pointer); ok {
						pt = p
						pv = e.asPtr(bi.v, bi.t)
					}
				}
			}
			if pv == nil {
				e.havocAllHeap(st)
			} else if pv.Kind == pHeap {
				e.havocLoc(st, &Ptr{Kind: pHeap, Ref: pv.Ref, Root: pv.Root, Type: pt.Elem(), Path: pv.Path})
			} else if pv.Kind == pCell {
				v := e.smt.fresh("hv."+pv.Cell.name, e.ti.sortOf(pv.Cell.typ))
				st.cells[pv.Cell] = v
				e.assume(st, e.wellTypedDeep(st, pv.Cell.typ, v))
			}
		}
	}
	if ct.MayPanic && e.spec == 0 && e.quant == 0 && e.curFrame != nil {
		// the callee may panic instead of returning: that path unwinds the current frame (its effects so
		// far — the havocked frame of the callee — stand; its postcondition does not hold)
		pv := e.smt.fresh("panics", SBool)
		ps := st.clone()
		ps.pc = tAnd(st.pc, pv)
		ps.pc = e.smt.define("pc", ps.pc)
		e.curFrame.panicExits = append(e.curFrame.panicExits, ps)
		st.pc = e.smt.define("pc", tAnd(st.pc, tNot(pv)))
		panicState = ps
	}
	if ct.Attrs["calls-arg"] != "" {
		// the callee may invoke a function argument any number of times: everything that function can
		// change is havocked (its captured variables that it assigns, and the heap)
		for _, a := range args {
			cl, ok := a.(*Closure)
			if !ok {
				continue
			}
			ms := &modSet{cells: map[*ssa.Alloc]bool{}, comps: map[string]string{}, iters: map[*ssa.Range]bool{}}
			seenFns := map[*ssa.Function]bool{}
			for _, b := range cl.Fn.Blocks {
				e.scanMods(cl.Fn, b.Instrs, ms, seenFns, nil)
			}
			if ms.all {
				e.havocAllHeap(st)
			} else {
				// every callee of the function argument has a frame: only those components can change
				for _, k := range sortedKeys(ms.comps) {
					st.heap[k] = e.smt.fresh("hv."+k, ms.comps[k])
				}
				na := e.smt.fresh("alloc", SInt)
				e.assume(st, tLe(st.alloc, na))
				st.alloc = na
			}
			for _, b := range cl.Fn.Blocks {
				for _, in := range b.Instrs {
					if sti, ok := in.(*ssa.Store); ok {
						root, _, _, _ := rootOf(sti.Addr)
						if fv, ok := root.(*ssa.FreeVar); ok {
							for i, f := range cl.Fn.FreeVars {
								if f == fv {
									if p, ok := cl.Bindings[i].(*Ptr); ok && p.Kind == pCell {
										v := e.smt.fresh("hv."+p.Cell.name, e.ti.sortOf(p.Cell.typ))
										st.cells[p.Cell] = v
										e.assume(st, e.wellTypedDeep(st, p.Cell.typ, v))
									}
								}
							}
						}
					}
				}
			}
			_ = ms
		}
	}
	var res Value
	if ct.Pure && pureScalarK(sig, ct.Kind == "iface" || ct.Kind == "ext") {
		e.pureAxioms(ct, sig)
		return e.pureResult(st, ct, sig, targs), true
	}
	if ct.Pure && len(ct.Ensures) >= 0 && sig.Results().Len() == 1 && e.pureApp(ct) {
		res = e.pureResult(st, ct, sig, targs)
	} else {
		res = e.freshOf(st, "r."+smtIdent(shortName(calleeName)), sig.Results())
	}
	rvals := unwrapResults(res, sig.Results().Len())
	if g := ct.Attrs["result-ghost"]; g != "" && len(rvals) >= 1 && len(targs) > 0 {
		// the (ghost) record of the most recent result, attached to the receiver
		rt, ok1 := rvals[0].(Term)
		recv, ok2 := targs[0].(Term)
		if ok1 && ok2 {
			e.ghostSorts[g] = rt.Sort
			arr := e.heapComp(st, "G."+g, SInt, arraySort(SInt, rt.Sort))
			e.setHeap(st, "G."+g, tStore(arr, recv, rt))
		}
	}
	_ = 0
	if g := ct.Attrs["log-count"]; g != "" && len(targs) > 0 {
		// ghost call log attached to the receiver: a counter and (optionally) the sequence of first arguments
		if recv, ok := targs[0].(Term); ok {
			e.ghostSorts[g] = SInt
			cnt := e.heapComp(st, "G."+g, SInt, arraySort(SInt, SInt))
			n0 := tSelect(cnt, recv, SInt)
			if ga := ct.Attrs["log-arg"]; ga != "" && len(targs) > 1 {
				if a1, ok := targs[1].(Term); ok {
					ss := arraySort(SInt, a1.Sort)
					e.ghostSorts[ga] = ss
					seq := e.heapComp(st, "G."+ga, SInt, arraySort(SInt, ss))
					e.setHeap(st, "G."+ga, tStore(seq, recv, tStore(tSelect(seq, recv, ss), n0, a1)))
				}
			}
			e.setHeap(st, "G."+g, tStore(cnt, recv, tAdd(n0, tInt(1))))
		}
	}
	all := append(append([]Value{}, targs...), rvals...)
	for _, cl := range ct.Ensures {
		if cl.GenFn == "" {
			continue
		}
		if cl.Label == "onpanic" {
			// what is known when the callee panicked instead of returning (results are meaningless there)
			if panicState != nil {
				if g, ok := e.evalSpec(panicState, ct.PkgPath, cl.GenFn, all, old); ok {
					e.assume(panicState, g)
				}
			}
			continue
		}
		g, ok := e.evalSpec(st, ct.PkgPath, cl.GenFn, all, old)
		if !ok {
			continue
		}
		// a postcondition stated for property P of a callee that has a precondition stated for P may rest on
		// that precondition: it is known after the call in P's run only
		e.curAssumeProps = taggedWith(ct, cl.Props)
		e.assume(st, g)
		e.curAssumeProps = nil
	}
	if g := ct.Attrs["result-content"]; g != "" && len(rvals) >= 1 && len(targs) > 0 {
		// (ghost) what the returned reader yields, as of now, attached to the receiver
		rt, ok1 := rvals[0].(Term)
		recv, ok2 := targs[0].(Term)
		if ok1 && ok2 {
			e.ghostSorts[g] = SInt
			e.ghostSorts["ghost_rcontent"] = SInt
			rc := e.heapComp(st, "G.ghost_rcontent", SInt, arraySort(SInt, SInt))
			arr := e.heapComp(st, "G."+g, SInt, arraySort(SInt, SInt))
			e.setHeap(st, "G."+g, tStore(arr, recv, tSelect(rc, rt, SInt)))
		}
	}
	if ct.Attrs["fs-mutating"] != "" && e.topCt != nil && e.spec == 0 {
		// a crash may happen right after this file-system mutation: the crash invariant of the function
		// under verification must hold in the state it leaves behind
		for i, cl := range e.topCt.CrashInv {
			if g, ok := e.evalSpec(st, e.topCt.PkgPath, cl.GenFn, e.topArgs, e.entry); ok {
				n0 := len(e.obls)
				e.oblige(st, "crash", fmt.Sprintf("crash.%s@%s", clauseName(cl, i), calleeName), g, where)
				if len(cl.Props) > 0 && len(e.obls) > n0 {
					e.obls[len(e.obls)-1].Props = cl.Props
				}
			}
		}
	}
	return res, true
}

func shortName(s string) string {
	if i := strings.LastIndexAny(s, "./)"); i >= 0 {
		return s[i+1:]
	}
	return s
}

func clauseName(cl *Clause, i int) string {
	if cl.Label != "" {
		return cl.Label
	}
	return fmt.Sprintf("%d", i)
}

// pureApp: a pure contract function with scalar arguments is an uninterpreted function application,
// so equal arguments give equal results.
func (e *Exec) pureApp(ct *Contract) bool { return true }

func (e *Exec) pureResult(st *State, ct *Contract, sig *types.Signature, args []Value) Value {
	var sorts []string
	var ts []Term
	for _, a := range args {
		t, ok := a.(Term)
		if !ok {
			return e.freshOf(st, "pure", sig.Results())
		}
		sorts = append(sorts, t.Sort)
		ts = append(ts, t)
	}
	rs := e.ti.sortOf(sig.Results().At(0).Type())
	f := "pf." + smtIdent(strings.TrimPrefix(ct.Key, repoModule+"/"))
	e.smt.declareFun(f, sorts, rs)
	if len(ts) == 0 {
		return Term{f, rs}
	}
	r := app(rs, f, ts...)
	if e.quant == 0 {
		e.assume(st, e.wellTyped(st, sig.Results().At(0).Type(), r))
	}
	return r
}

// pureAxiomatizable: all parameters and the result are heap-independent scalars.
func pureScalar(sig *types.Signature) bool { return pureScalarK(sig, false) }

// pureScalarK: with refs allowed, pointer / interface arguments are treated as opaque identities
// (only for assumed iface/ext contracts whose author declares the result independent of mutable state).
func pureScalarK(sig *types.Signature, refs bool) bool {
	ok := func(t types.Type) bool {
		switch u := t.Underlying().(type) {
		case *types.Basic:
			return u.Info()&(types.IsInteger|types.IsBoolean|types.IsString) != 0
		case *types.Pointer, *types.Interface:
			return refs
		case *types.Struct:
			// struct values are heap-independent (datatype terms) as long as their fields are
			for i := 0; i < u.NumFields(); i++ {
				switch u.Field(i).Type().Underlying().(type) {
				case *types.Slice, *types.Map, *types.Chan:
					return false
				}
			}
			return true
		}
		return false
	}
	if sig.Recv() != nil && !ok(sig.Recv().Type()) {
		return false
	}
	for i := 0; i < sig.Params().Len(); i++ {
		if !ok(sig.Params().At(i).Type()) {
			return false
		}
	}
	return sig.Results().Len() == 1 && ok(sig.Results().At(0).Type())
}

// pureAxioms emits, once, the universally quantified form of a pure scalar contract:
// forall args. pre(args) => post(args, f(args)), triggered on f(args).
func (e *Exec) pureAxioms(ct *Contract, sig *types.Signature) {
	key := "pureax:" + ct.Key
	if e.smt.axiomDone[key] {
		return
	}
	e.smt.axiomDone[key] = true
	var bound []string
	var args []Value
	var sorts []string
	var ranges []Term
	add := func(name string, t types.Type) {
		s := e.ti.sortOf(t)
		nm := e.smt.freshName("a." + name)
		bound = append(bound, fmt.Sprintf("(%s %s)", nm, s))
		v := Term{nm, s}
		args = append(args, v)
		sorts = append(sorts, s)
		if rf := rangeFact(t, v); rf.S != "true" {
			ranges = append(ranges, rf)
		}
	}
	if sig.Recv() != nil {
		add("recv", sig.Recv().Type())
	}
	for i := 0; i < sig.Params().Len(); i++ {
		add(sig.Params().At(i).Name(), sig.Params().At(i).Type())
	}
	rs := e.ti.sortOf(sig.Results().At(0).Type())
	f := "pf." + smtIdent(strings.TrimPrefix(ct.Key, repoModule+"/"))
	e.smt.declareFun(f, sorts, rs)
	var ts []Term
	for _, a := range args {
		ts = append(ts, a.(Term))
	}
	res := app(rs, f, ts...)
	st := &State{pc: tTrue, cells: map[*Cell]Value{}, heap: map[string]Term{}, locks: map[string]int{}, alloc: tInt(0)}
	e.quant++
	var pres, posts []Term
	for _, cl := range ct.Requires {
		if g, ok := e.evalSpec(st, ct.PkgPath, cl.GenFn, args, st); ok {
			pres = append(pres, g)
		}
	}
	all := append(append([]Value{}, args...), res)
	for _, cl := range ct.Ensures {
		if g, ok := e.evalSpec(st, ct.PkgPath, cl.GenFn, all, st); ok {
			posts = append(posts, g)
		}
	}
	e.quant--
	posts = append(posts, rangeFact(sig.Results().At(0).Type(), res))
	body := tImp(tAnd(append(ranges, pres...)...), tAnd(posts...))
	if body.S == "true" {
		return
	}
	e.smt.axioms = append(e.smt.axioms, fmt.Sprintf("(assert (forall (%s) (! %s :pattern (%s))))", strings.Join(bound, " "), body.S, res.S))
}

// invoke: interface method call, by interface contract.
func (e *Exec) invoke(fr *frame, st *State, c *ssa.CallCommon, recv Value, args []Value, where string) (Value, bool) {
	e.curCall, e.curFrame = c, fr
	it := c.Value.Type()
	key := ""
	if n, ok := it.(*types.Named); ok && n.Obj().Pkg() != nil {
		key = "iface:" + n.Obj().Pkg().Path() + "." + n.Obj().Name() + "." + c.Method.Name()
	} else if types.Identical(it, errorType) && c.Method.Name() == "Error" {
		r := e.smt.fresh("errstr", SStr)
		return r, true
	} else {
		key = "iface:" + it.String() + "." + c.Method.Name()
	}
	sig := c.Method.Type().(*types.Signature)
	ct := e.cs.ByKey[key]
	if ct == nil {
		// embedded interfaces: look for the method's declaring interface
		if fnc := c.Method; fnc != nil && fnc.Pkg() != nil {
			for k, cand := range e.cs.ByKey {
				if strings.HasPrefix(k, "iface:"+fnc.Pkg().Path()+".") && strings.HasSuffix(k, "."+c.Method.Name()) {
					ct = cand
				}
			}
		}
	}
	all := append([]Value{recv}, args...)
	if ct == nil {
		if e.ignoredIface(it, c.Method.Name()) {
			return e.freshOf(st, "ign", sig.Results()), true
		}
		e.unsupported("interface call %s.%s without contract at %s", it, c.Method.Name(), where)
		return e.freshOf(st, "inv", sig.Results()), true
	}
	// signature with receiver for argument typing
	rsig := types.NewSignatureType(types.NewVar(0, nil, "self", it), nil, nil, sig.Params(), sig.Results(), sig.Variadic())
	return e.modularCall(st, ct, rsig, all, where, shortKey(strings.TrimPrefix(key, "iface:")))
}

func (e *Exec) ignoredIface(t types.Type, m string) bool {
	return false
}

// quantifier translates vcForall/vcExists(func(k T) bool {...}).
func (e *Exec) quantifier(fr *frame, st *State, forall bool, f Value, where string) Value {
	cl, ok := f.(*Closure)
	var fn *ssa.Function
	var bindings []Value
	if ok {
		fn, bindings = cl.Fn, cl.Bindings
	} else if fv, ok2 := f.(*FuncVal); ok2 {
		fn = fv.Fn
	} else {
		e.unsupported("quantifier over non-literal function at %s", where)
		return tTrue
	}
	var bound []string
	var args []Value
	var ranges []Term
	for _, p := range fn.Params {
		s := e.ti.sortOf(p.Type())
		nm := e.smt.freshName("q." + p.Name())
		bound = append(bound, fmt.Sprintf("(%s %s)", nm, s))
		v := Term{nm, s}
		args = append(args, v)
		if rf := rangeFact(p.Type(), v); rf.S != "true" {
			ranges = append(ranges, rf)
		}
	}
	e.quant++
	e.spec++
	cp := st.clone()
	cp.pc = tTrue
	if cp.oldView != nil {
		// inside old(e), allocations of the body (the argument array of a variadic call such as
		// filepath.Join) are written to the old view: they mention the bound variable and must not be
		// seen by anything evaluated after this quantifier
		cp.oldView = cp.oldView.clone()
	}
	saveTrig := e.triggers
	e.triggers = nil
	rs, out := e.runInline(fn, args, bindings, cp, nil)
	trig := e.triggers
	e.triggers = saveTrig
	e.quant--
	e.spec--
	if out == nil || len(rs) != 1 {
		e.unsupported("quantifier body did not produce a value at %s", where)
		return tTrue
	}
	body := rs[0].(Term)
	pat := ""
	if len(trig) > 0 {
		var ps []string
		for _, t := range trig {
			ps = append(ps, cleanTrigger(t.S, bound)...)
		}
		if len(ps) > 0 {
			pat = " :pattern (" + strings.Join(ps, " ") + ")"
		}
	}
	q := "forall"
	if !forall {
		q = "exists"
		if len(ranges) > 0 {
			body = tAnd(append(ranges, body)...)
		}
	} else if len(ranges) > 0 {
		body = tImp(tAnd(ranges...), body)
	}
	if pat != "" {
		return Term{fmt.Sprintf("(%s (%s) (! %s%s))", q, strings.Join(bound, " "), body.S, pat), SBool}
	}
	return Term{fmt.Sprintf("(%s (%s) %s)", q, strings.Join(bound, " "), body.S), SBool}
}

// recSpecApp: application of a recursive specification function (uninterpreted symbol with a
// defining axiom); see recspec.go.

// mapSeq: vcMapSeq(func(k int) T {...}) is the sequence F with F[k] == body(k) for every k.  Equal
// bodies (after renaming the bound variable) denote the same symbol.
func (e *Exec) mapSeq(st *State, f Value, sig *types.Signature, where string) Value {
	var fn *ssa.Function
	var bindings []Value
	switch x := f.(type) {
	case *Closure:
		fn, bindings = x.Fn, x.Bindings
	case *FuncVal:
		fn = x.Fn
	default:
		e.unsupported("vcMapSeq over a non-literal function at %s", where)
		return e.freshOf(st, "mapseq", sig.Results())
	}
	es := e.ti.sortOf(fn.Signature.Results().At(0).Type())
	as := arraySort(SInt, es)
	k := Term{"mk!k", SInt}
	e.quant++
	e.spec++
	cp := st.clone()
	cp.pc = tTrue
	if cp.oldView != nil {
		cp.oldView = cp.oldView.clone()
	}
	rs, out := e.runInline(fn, []Value{k}, bindings, cp, nil)
	e.spec--
	e.quant--
	if out == nil || len(rs) != 1 {
		e.unsupported("vcMapSeq body has no value at %s", where)
		return e.freshOf(st, "mapseq", sig.Results())
	}
	body := rs[0].(Term)
	if e.mapSeqs == nil {
		e.mapSeqs = map[string]Term{}
	}
	if t, ok := e.mapSeqs[body.S]; ok {
		return t
	}
	F := e.smt.fresh("mapseq", as)
	e.mapSeqs[body.S] = F
	e.smt.axioms = append(e.smt.axioms, fmt.Sprintf("(assert (forall ((mk!k Int)) (! (= (select %s mk!k) %s) :pattern ((select %s mk!k)))))", F.S, body.S, F.S))
	return F
}

// cleanTrigger turns a trigger expression into admissible pattern terms: a term with Boolean
// connectives or ite (e.g. the translation of vcHas(m, k) or m[k]) is replaced by its innermost
// select / function applications that mention a bound variable.
func cleanTrigger(t string, bound []string) []string {
	bad := func(x string) bool {
		return strings.Contains(x, "(and ") || strings.Contains(x, "(or ") || strings.Contains(x, "(not ") || strings.Contains(x, "(ite ") || strings.Contains(x, "(=> ") || strings.Contains(x, "(= ") || strings.Contains(x, "(<= ") || strings.Contains(x, "(< ")
	}
	if !bad(t) {
		return []string{t}
	}
	var names []string
	for _, b := range bound {
		f := strings.Fields(strings.Trim(b, "()"))
		if len(f) > 0 {
			names = append(names, f[0])
		}
	}
	mentions := func(x string) bool {
		for _, n := range names {
			if strings.Contains(x, n) {
				return true
			}
		}
		return false
	}
	var out []string
	seen := map[string]bool{}
	for i := 0; i < len(t); i++ {
		if t[i] != '(' || !strings.HasPrefix(t[i:], "(select ") {
			continue
		}
		d := 0
		for j := i; j < len(t); j++ {
			if t[j] == '(' {
				d++
			} else if t[j] == ')' {
				d--
				if d == 0 {
					sub := t[i : j+1]
					if !bad(sub) && mentions(sub) && !seen[sub] {
						seen[sub] = true
						out = append(out, sub)
					}
					break
				}
			}
		}
	}
	if len(out) > 1 {
		// keep the smallest one that still mentions all bound variables, else the first
		return out[:1]
	}
	return out
}

// hasCycle: does the control-flow graph of fn contain a loop?
func hasCycle(fn *ssa.Function) bool {
	color := map[*ssa.BasicBlock]int{}
	var dfs func(b *ssa.BasicBlock) bool
	dfs = func(b *ssa.BasicBlock) bool {
		color[b] = 1
		for _, s := range b.Succs {
			if color[s] == 1 {
				return true
			}
			if color[s] == 0 && dfs(s) {
				return true
			}
		}
		color[b] = 2
		return false
	}
	if len(fn.Blocks) == 0 {
		return false
	}
	return dfs(fn.Blocks[0])
}

// ghostCanon: ghost_closedXxx(c chan T) are names for the one closed flag of channels (Go has no
// generic ghost function here: one declaration per element type).
func ghostCanon(name string) string {
	if strings.HasPrefix(name, "ghost_closed") {
		return "ghost_closed"
	}
	if strings.HasPrefix(name, "ghost_nsent") {
		return "ghost_nsent"
	}
	return name
}

// fnAcquires: does fn (or a repository function it calls statically) call a sync Lock / RLock?
func (e *Exec) fnAcquires(fn *ssa.Function, depth int) bool {
	if e.acqCache == nil {
		e.acqCache = map[*ssa.Function]bool{}
	}
	if v, ok := e.acqCache[fn]; ok {
		return v
	}
	if depth > 8 || fn.Blocks == nil {
		return false
	}
	e.acqCache[fn] = false
	res := false
	var scan func(f *ssa.Function)
	scan = func(f *ssa.Function) {
		for _, b := range f.Blocks {
			for _, in := range b.Instrs {
				var cc *ssa.CallCommon
				switch x := in.(type) {
				case *ssa.Call:
					cc = &x.Call
				case *ssa.Defer:
					cc = &x.Call
				}
				if cc == nil || cc.IsInvoke() {
					continue
				}
				if callee := cc.StaticCallee(); callee != nil {
					if op, ok := isLockFn(fnKey(callee)); ok && (op == "lock" || op == "rlock") {
						res = true
						return
					}
					if cct := e.cs.ByKey[fnKey(callee)]; cct != nil && cct.Attrs["leaflock"] != "" {
						// its locks are leaves: never held while another lock is taken or a channel is waited on
						continue
					}
					if isRepoFn(callee) && e.fnAcquires(callee, depth+1) {
						res = true
						return
					}
				}
			}
		}
		for _, a := range f.AnonFuncs {
			scan(a)
		}
	}
	scan(fn)
	e.acqCache[fn] = res
	return res
}

func (e *Exec) tokAxioms() {
	e.smt.declareFun("tok.cat", []string{SInt, SInt}, SInt)
	e.smt.declare("tok.empty", SInt)
	e.smt.axiom("tok.unit", "(assert (forall ((x Int)) (! (and (= (tok.cat tok.empty x) x) (= (tok.cat x tok.empty) x)) :pattern ((tok.cat tok.empty x)) :pattern ((tok.cat x tok.empty)))))")
}

// taggedWith: the properties among props for which ct has a precondition stated for that property only.
func taggedWith(ct *Contract, props []string) []string {
	var out []string
	for _, p := range props {
		for _, r := range ct.Requires {
			if has(r.Props, p) {
				out = append(out, p)
				break
			}
		}
	}
	return out
}
