package main

// Loading of /repo's working tree: go/packages for everything, then a re-typecheck of the
// repository's own packages (in dependency order) with the generated contract functions added,
// then go/ssa in naive form (locals stay as allocs, so named locals can be bound in invariants).

import (
	"fmt"
	"go/ast"
	"go/parser"
	"go/token"
	"go/types"
	"os"
	"path/filepath"
	"sort"
	"strings"

	"golang.org/x/tools/go/packages"
	"golang.org/x/tools/go/ssa"
)

const repoModule = "github.com/inbucket/inbucket/v3"

type Pkg struct {
	Path   string
	Dir    string
	Files  []*ast.File // original files (tags verif on)
	GenSrc string      // generated contract functions (Go source), may be empty
	GenAST *ast.File
	Types  *types.Package
	Info   *types.Info
	SSA    *ssa.Package
	Imports []string
	allFiles []*ast.File
}

type World struct {
	Fset   *token.FileSet
	Pkgs   map[string]*Pkg // repo packages by import path
	Order  []string        // dependency order
	ext    map[string]*types.Package
	Prog   *ssa.Program
	loaded map[string]*packages.Package
	RepoDir string
}

func newInfo() *types.Info {
	return &types.Info{
		Types:      map[ast.Expr]types.TypeAndValue{},
		Defs:       map[*ast.Ident]types.Object{},
		Uses:       map[*ast.Ident]types.Object{},
		Implicits:  map[ast.Node]types.Object{},
		Selections: map[*ast.SelectorExpr]*types.Selection{},
		Scopes:     map[ast.Node]*types.Scope{},
		Instances:  map[*ast.Ident]types.Instance{},
		FileVersions: map[*ast.File]string{},
	}
}

// LoadWorld loads the packages matching patterns (relative to repoDir) and all dependencies.
func LoadWorld(repoDir string, patterns []string) (*World, error) {
	fset := token.NewFileSet()
	cfg := &packages.Config{
		Mode: packages.NeedName | packages.NeedFiles | packages.NeedCompiledGoFiles | packages.NeedImports |
			packages.NeedDeps | packages.NeedTypes | packages.NeedSyntax | packages.NeedTypesInfo | packages.NeedTypesSizes | packages.NeedModule,
		Dir:        repoDir,
		Fset:       fset,
		BuildFlags: []string{"-tags=verif"},
		Env:        append(os.Environ(), "GOFLAGS=-mod=mod", "GOPROXY=off", "GOSUMDB=off", "GOTOOLCHAIN=local"),
	}
	pkgs, err := packages.Load(cfg, patterns...)
	if err != nil {
		return nil, err
	}
	w := &World{Fset: fset, Pkgs: map[string]*Pkg{}, ext: map[string]*types.Package{}, loaded: map[string]*packages.Package{}, RepoDir: repoDir}
	var errs []string
	packages.Visit(pkgs, nil, func(p *packages.Package) {
		w.loaded[p.PkgPath] = p
		for _, e := range p.Errors {
			errs = append(errs, e.Error())
		}
	})
	if len(errs) > 0 {
		return nil, fmt.Errorf("load errors: %s", strings.Join(errs, "; "))
	}
	for path, p := range w.loaded {
		if strings.HasPrefix(path, repoModule) {
			dir := ""
			if len(p.GoFiles) > 0 {
				dir = filepath.Dir(p.GoFiles[0])
			}
			pk := &Pkg{Path: path, Dir: dir, Files: p.Syntax}
			for ip := range p.Imports {
				pk.Imports = append(pk.Imports, ip)
			}
			sort.Strings(pk.Imports)
			w.Pkgs[path] = pk
		} else {
			w.ext[path] = p.Types
		}
	}
	// dependency order among repo packages
	seen := map[string]bool{}
	var visit func(string)
	visit = func(p string) {
		if seen[p] {
			return
		}
		seen[p] = true
		pk := w.Pkgs[p]
		if pk == nil {
			return
		}
		for _, ip := range pk.Imports {
			visit(ip)
		}
		w.Order = append(w.Order, p)
	}
	var keys []string
	for k := range w.Pkgs {
		keys = append(keys, k)
	}
	sort.Strings(keys)
	for _, k := range keys {
		visit(k)
	}
	return w, nil
}

type worldImporter struct{ w *World }

func (wi worldImporter) Import(path string) (*types.Package, error) {
	if p, ok := wi.w.Pkgs[path]; ok {
		if p.Types == nil {
			return nil, fmt.Errorf("package %s not yet checked", path)
		}
		return p.Types, nil
	}
	if p, ok := wi.w.ext[path]; ok {
		return p, nil
	}
	if path == "unsafe" {
		return types.Unsafe, nil
	}
	return nil, fmt.Errorf("package %s not loaded", path)
}

// TypeCheck (re)checks all repo packages in dependency order, including generated sources.
func (w *World) TypeCheck() error {
	for _, path := range w.Order {
		pk := w.Pkgs[path]
		files := append([]*ast.File{}, pk.Files...)
		if pk.GenSrc != "" {
			fn := filepath.Join(pk.Dir, "zz_vcgen_generated.go")
			f, err := parser.ParseFile(w.Fset, fn, pk.GenSrc, parser.ParseComments|parser.SkipObjectResolution)
			if err != nil {
				return fmt.Errorf("generated code for %s does not parse: %v\n%s", path, err, numbered(pk.GenSrc))
			}
			pk.GenAST = f
			files = append(files, f)
		}
		info := newInfo()
		var terrs []string
		conf := types.Config{Importer: worldImporter{w}, Error: func(err error) {
			if te, ok := err.(types.Error); ok && te.Soft {
				return
			}
			terrs = append(terrs, err.Error())
		}, Sizes: types.SizesFor("gc", "amd64")}
		tp, _ := conf.Check(path, w.Fset, files, info)
		if len(terrs) > 0 {
			msg := strings.Join(terrs, "\n")
			if pk.GenSrc != "" {
				msg += "\n--- generated source ---\n" + numbered(pk.GenSrc)
			}
			return fmt.Errorf("type errors in %s:\n%s", path, msg)
		}
		pk.Types = tp
		pk.Info = info
		pk.allFiles = files
	}
	return nil
}

func numbered(s string) string {
	var b strings.Builder
	for i, l := range strings.Split(s, "\n") {
		fmt.Fprintf(&b, "%4d  %s\n", i+1, l)
	}
	return b.String()
}

// BuildSSA creates the SSA program: external packages from the loader's type info (bodies are not
// needed; they are summarised by contracts), repo packages from the re-checked type info.
func (w *World) BuildSSA() {
	mode := ssa.NaiveForm | ssa.GlobalDebug | ssa.InstantiateGenerics
	prog := ssa.NewProgram(w.Fset, mode)
	w.Prog = prog
	// external packages: create without syntax (functions have no bodies)
	created := map[*types.Package]bool{}
	var createExt func(p *types.Package)
	createExt = func(p *types.Package) {
		if p == nil || created[p] {
			return
		}
		created[p] = true
		for _, ip := range p.Imports() {
			if _, isRepo := w.Pkgs[ip.Path()]; !isRepo {
				createExt(ip)
			}
		}
		prog.CreatePackage(p, nil, nil, true)
	}
	var extPaths []string
	for k := range w.ext {
		extPaths = append(extPaths, k)
	}
	sort.Strings(extPaths)
	for _, k := range extPaths {
		createExt(w.ext[k])
	}
	for _, path := range w.Order {
		pk := w.Pkgs[path]
		pk.SSA = prog.CreatePackage(pk.Types, pk.allFiles, pk.Info, true)
	}
	for _, path := range w.Order {
		w.Pkgs[path].SSA.Build()
	}
}
