package main

import (
	"regexp"
	"bytes"
	"context"
	"crypto/sha256"
	"fmt"
	"os"
	"os/exec"
	"path/filepath"
	"strings"
	"sync"
	"time"
)

type SolveResult struct {
	Obl     *Obligation
	Status  string // discharged, refuted, undecided, vacuous-ok, vacuous-bad
	Solver  string
	Time    float64
	Answers map[string]string
	Model   string
	File    string
	Hash    string
}

type solverSpec struct {
	name string
	cmd  func(file string, timeoutS int, seed int) []string
}

var solvers = []solverSpec{
	{"z3-5.1.0", func(f string, t int, seed int) []string {
		return []string{"z3-new", fmt.Sprintf("-T:%d", t), fmt.Sprintf("smt.random_seed=%d", seed), f}
	}},
	{"z3-4.8.12", func(f string, t int, seed int) []string {
		return []string{"z3", fmt.Sprintf("-T:%d", t), fmt.Sprintf("smt.random_seed=%d", seed), f}
	}},
	{"cvc5-1.0", func(f string, t int, seed int) []string {
		return []string{"cvc5", fmt.Sprintf("--tlimit=%d", t*1000), fmt.Sprintf("--seed=%d", seed), f}
	}},
}

func (e *Exec) queryText(o *Obligation, withModel bool) string {
	var b strings.Builder
	b.WriteString(e.smt.header())
	for _, d := range e.smt.recDefs {
		b.WriteString(d)
		b.WriteByte('\n')
	}
	b.WriteString(e.smt.declText(len(e.smt.decls)))
	for _, a := range e.smt.axioms {
		b.WriteString(a)
		b.WriteByte('\n')
	}
	anc := e.pcAncestors(o.PC.S)
	for i := 0; i < o.NAssume && i < len(e.assumptions); i++ {
		// an assumption made under a path condition that is not part of the goal's path condition belongs
		// to another branch: it cannot help (dropping assumptions is always sound)
		if g := e.assumeGuard[i]; g != "" && anc != nil && strings.HasPrefix(g, "pc!") && !anc[g] {
			continue
		}
		b.WriteString(e.assumptions[i])
		b.WriteByte('\n')
	}
	fmt.Fprintf(&b, "; obligation %s (%s) at %s\n", o.Name, o.Kind, o.Where)
	fmt.Fprintf(&b, "(assert (not (=> %s %s)))\n", o.PC.S, o.Goal.S)
	b.WriteString("(check-sat)\n")
	if withModel {
		b.WriteString("(get-model)\n")
	}
	return b.String()
}

func runSolver(ctx context.Context, sp solverSpec, file string, timeoutS, seed int) (string, string, float64) {
	args := sp.cmd(file, timeoutS, seed)
	start := time.Now()
	cctx, cancel := context.WithTimeout(ctx, time.Duration(timeoutS+2)*time.Second)
	defer cancel()
	cmd := exec.CommandContext(cctx, args[0], args[1:]...)
	var out bytes.Buffer
	cmd.Stdout = &out
	cmd.Stderr = &out
	_ = cmd.Run()
	el := time.Since(start).Seconds()
	s := out.String()
	first := ""
	for _, l := range strings.Split(s, "\n") {
		l = strings.TrimSpace(l)
		if l == "" || strings.HasPrefix(l, "WARNING") {
			continue
		}
		first = l
		break
	}
	if strings.Contains(s, "(error") && !strings.Contains(s, "model is not available") {
		// an ill-formed query must never count as an answer, whatever the solver prints afterwards
		return "error: " + strings.TrimSpace(firstN(s[strings.Index(s, "(error"):], 300)), s, el
	}
	switch first {
	case "unsat", "sat", "unknown", "timeout":
	default:
		if strings.Contains(s, "error") {
			first = "error: " + strings.TrimSpace(firstN(s, 300))
		} else if first == "" {
			first = "timeout"
		}
	}
	return first, s, el
}

func firstN(s string, n int) string {
	if len(s) > n {
		return s[:n]
	}
	return s
}

// solveOne races the solvers on one obligation.
func solveOne(e *Exec, o *Obligation, dir string, timeoutS int, seed int, all bool) *SolveResult {
	text := e.queryText(o, false)
	h := sha256.Sum256([]byte(text))
	fn := filepath.Join(dir, smtIdent(o.Name)+".smt2")
	_ = os.WriteFile(fn, []byte(text), 0o644)
	res := &SolveResult{Obl: o, Answers: map[string]string{}, File: fn, Hash: fmt.Sprintf("%x", h[:8])}
	ctx, cancel := context.WithCancel(context.Background())
	defer cancel()
	type ans struct {
		name, first, out string
		t                float64
	}
	ch := make(chan ans, len(solvers))
	order := make([]solverSpec, len(solvers))
	copy(order, solvers)
	for _, sp := range order {
		sp := sp
		go func() {
			f, out, t := runSolver(ctx, sp, fn, timeoutS, seed)
			ch <- ans{sp.name, f, out, t}
		}()
	}
	start := time.Now()
	for i := 0; i < len(order); i++ {
		a := <-ch
		res.Answers[a.name] = a.first
		if a.first == "unsat" || a.first == "sat" {
			if res.Solver == "" {
				res.Solver = a.name
				res.Time = a.t
				if a.first == "unsat" {
					res.Status = "discharged"
				} else {
					res.Status = "refuted"
				}
			} else if (res.Status == "discharged") != (a.first == "unsat") {
				res.Status = "solver-disagreement"
			}
			if !all {
				cancel()
				break
			}
		}
	}
	for _, a := range res.Answers {
		if strings.HasPrefix(a, "error") && !all {
			// one solver rejected the query as ill-formed: nothing any other solver says about it is trusted
			res.Status = ""
		}
	}
	if res.Status == "" {
		res.Status = "undecided"
		res.Time = time.Since(start).Seconds()
	}
	if o.Expect == "sat" {
		// vacuity probe: unsat is bad; sat / unknown is fine
		switch res.Status {
		case "discharged":
			res.Status = "vacuous"
		default:
			res.Status = "nonvacuous"
		}
	}
	if res.Status == "refuted" {
		// get a model from the solver that said sat
		mtext := e.queryText(o, true)
		mf := fn + ".model.smt2"
		_ = os.WriteFile(mf, []byte(mtext), 0o644)
		for _, sp := range solvers {
			if sp.name == res.Solver {
				_, out, _ := runSolver(context.Background(), sp, mf, timeoutS, seed)
				res.Model = out
			}
		}
	}
	return res
}

func solveAll(e *Exec, obls []*Obligation, dir string, timeoutS, seed int, all bool, par int) []*SolveResult {
	out := make([]*SolveResult, len(obls))
	var wg sync.WaitGroup
	sem := make(chan struct{}, par)
	for i, o := range obls {
		i, o := i, o
		wg.Add(1)
		sem <- struct{}{}
		go func() {
			defer wg.Done()
			defer func() { <-sem }()
			to := timeoutS
			if o.Expect == "sat" {
				to = 2
			}
			out[i] = solveOne(e, o, dir, to, seed, all)
		}()
	}
	wg.Wait()
	return out
}

var pcNameRe = regexp.MustCompile(`pc![0-9]+`)

// pcAncestors: the set of named path conditions the given path condition is built from.
func (e *Exec) pcAncestors(pc string) map[string]bool {
	e.pcMu.Lock()
	defer e.pcMu.Unlock()
	if e.pcParents == nil {
		e.pcParents = map[string][]string{}
		for _, d := range e.smt.decls {
			if strings.HasPrefix(d.Name, "pc!") {
				e.pcParents[d.Name] = pcNameRe.FindAllString(d.Text[len("(define-fun "+d.Name):], -1)
			}
		}
	}
	roots := pcNameRe.FindAllString(pc, -1)
	if len(roots) == 0 {
		return nil
	}
	out := map[string]bool{}
	var visit func(string)
	visit = func(n string) {
		if out[n] {
			return
		}
		out[n] = true
		for _, p := range e.pcParents[n] {
			visit(p)
		}
	}
	for _, r := range roots {
		visit(r)
	}
	return out
}

// quickValid asks one solver, with a short time-out, whether cond holds at this point.  It is used
// only to simplify the encoding (e.g. "this append never reallocates"); an inconclusive answer
// keeps the general encoding.
func (e *Exec) quickValid(st *State, cond Term, ms int) bool {
	if e.quant > 0 || e.noQuick {
		return false
	}
	o := &Obligation{Name: "quick", Kind: "quick", PC: st.pc, Goal: cond, NAssume: len(e.assumptions), NDecl: len(e.smt.decls)}
	e.pcMu.Lock()
	e.pcParents = nil // definitions grow during generation
	e.pcMu.Unlock()
	text := e.queryText(o, false)
	e.pcMu.Lock()
	e.pcParents = nil
	e.pcMu.Unlock()
	f, err := os.CreateTemp("", "govc-quick-*.smt2")
	if err != nil {
		return false
	}
	defer os.Remove(f.Name())
	f.WriteString(text)
	f.Close()
	ctx, cancel := context.WithTimeout(context.Background(), time.Duration(ms+500)*time.Millisecond)
	defer cancel()
	out, _ := exec.CommandContext(ctx, "z3-new", fmt.Sprintf("-t:%d", ms), f.Name()).Output()
	for _, l := range strings.Split(string(out), "\n") {
		l = strings.TrimSpace(l)
		if l == "" || strings.HasPrefix(l, "WARNING") {
			continue
		}
		return l == "unsat"
	}
	return false
}
