package main

import (
	"bytes"
	"context"
	"crypto/sha256"
	"fmt"
	"os"
	"os/exec"
	"path/filepath"
	"strings"
	"sync"
	"time"
)

type SolveResult struct {
	Obl     *Obligation
	Status  string // discharged, refuted, undecided, vacuous-ok, vacuous-bad
	Solver  string
	Time    float64
	Answers map[string]string
	Model   string
	File    string
	Hash    string
}

type solverSpec struct {
	name string
	cmd  func(file string, timeoutS int, seed int) []string
}

var solvers = []solverSpec{
	{"z3-5.1.0", func(f string, t int, seed int) []string {
		return []string{"z3-new", fmt.Sprintf("-T:%d", t), fmt.Sprintf("smt.random_seed=%d", seed), f}
	}},
	{"z3-4.8.12", func(f string, t int, seed int) []string {
		return []string{"z3", fmt.Sprintf("-T:%d", t), fmt.Sprintf("smt.random_seed=%d", seed), f}
	}},
	{"cvc5-1.0", func(f string, t int, seed int) []string {
		return []string{"cvc5", fmt.Sprintf("--tlimit=%d", t*1000), fmt.Sprintf("--seed=%d", seed), f}
	}},
}

func (e *Exec) queryText(o *Obligation, withModel bool) string {
	var b strings.Builder
	b.WriteString(e.smt.header())
	for _, d := range e.smt.recDefs {
		b.WriteString(d)
		b.WriteByte('\n')
	}
	b.WriteString(e.smt.declText(len(e.smt.decls)))
	for _, a := range e.smt.axioms {
		b.WriteString(a)
		b.WriteByte('\n')
	}
	for i := 0; i < o.NAssume && i < len(e.assumptions); i++ {
		b.WriteString(e.assumptions[i])
		b.WriteByte('\n')
	}
	fmt.Fprintf(&b, "; obligation %s (%s) at %s\n", o.Name, o.Kind, o.Where)
	fmt.Fprintf(&b, "(assert (not (=> %s %s)))\n", o.PC.S, o.Goal.S)
	b.WriteString("(check-sat)\n")
	if withModel {
		b.WriteString("(get-model)\n")
	}
	return b.String()
}

func runSolver(ctx context.Context, sp solverSpec, file string, timeoutS, seed int) (string, string, float64) {
	args := sp.cmd(file, timeoutS, seed)
	start := time.Now()
	cctx, cancel := context.WithTimeout(ctx, time.Duration(timeoutS+2)*time.Second)
	defer cancel()
	cmd := exec.CommandContext(cctx, args[0], args[1:]...)
	var out bytes.Buffer
	cmd.Stdout = &out
	cmd.Stderr = &out
	_ = cmd.Run()
	el := time.Since(start).Seconds()
	s := out.String()
	first := ""
	for _, l := range strings.Split(s, "\n") {
		l = strings.TrimSpace(l)
		if l == "" || strings.HasPrefix(l, "WARNING") {
			continue
		}
		first = l
		break
	}
	switch first {
	case "unsat", "sat", "unknown", "timeout":
	default:
		if strings.Contains(s, "error") {
			first = "error: " + strings.TrimSpace(firstN(s, 300))
		} else if first == "" {
			first = "timeout"
		}
	}
	return first, s, el
}

func firstN(s string, n int) string {
	if len(s) > n {
		return s[:n]
	}
	return s
}

// solveOne races the solvers on one obligation.
func solveOne(e *Exec, o *Obligation, dir string, timeoutS int, seed int, all bool) *SolveResult {
	text := e.queryText(o, false)
	h := sha256.Sum256([]byte(text))
	fn := filepath.Join(dir, smtIdent(o.Name)+".smt2")
	_ = os.WriteFile(fn, []byte(text), 0o644)
	res := &SolveResult{Obl: o, Answers: map[string]string{}, File: fn, Hash: fmt.Sprintf("%x", h[:8])}
	ctx, cancel := context.WithCancel(context.Background())
	defer cancel()
	type ans struct {
		name, first, out string
		t                float64
	}
	ch := make(chan ans, len(solvers))
	order := make([]solverSpec, len(solvers))
	copy(order, solvers)
	for _, sp := range order {
		sp := sp
		go func() {
			f, out, t := runSolver(ctx, sp, fn, timeoutS, seed)
			ch <- ans{sp.name, f, out, t}
		}()
	}
	start := time.Now()
	for i := 0; i < len(order); i++ {
		a := <-ch
		res.Answers[a.name] = a.first
		if a.first == "unsat" || a.first == "sat" {
			if res.Solver == "" {
				res.Solver = a.name
				res.Time = a.t
				if a.first == "unsat" {
					res.Status = "discharged"
				} else {
					res.Status = "refuted"
				}
			} else if (res.Status == "discharged") != (a.first == "unsat") {
				res.Status = "solver-disagreement"
			}
			if !all {
				cancel()
				break
			}
		}
	}
	if res.Status == "" {
		res.Status = "undecided"
		res.Time = time.Since(start).Seconds()
	}
	if o.Expect == "sat" {
		// vacuity probe: unsat is bad; sat / unknown is fine
		switch res.Status {
		case "discharged":
			res.Status = "vacuous"
		default:
			res.Status = "nonvacuous"
		}
	}
	if res.Status == "refuted" {
		// get a model from the solver that said sat
		mtext := e.queryText(o, true)
		mf := fn + ".model.smt2"
		_ = os.WriteFile(mf, []byte(mtext), 0o644)
		for _, sp := range solvers {
			if sp.name == res.Solver {
				_, out, _ := runSolver(context.Background(), sp, mf, timeoutS, seed)
				res.Model = out
			}
		}
	}
	return res
}

func solveAll(e *Exec, obls []*Obligation, dir string, timeoutS, seed int, all bool, par int) []*SolveResult {
	out := make([]*SolveResult, len(obls))
	var wg sync.WaitGroup
	sem := make(chan struct{}, par)
	for i, o := range obls {
		i, o := i, o
		wg.Add(1)
		sem <- struct{}{}
		go func() {
			defer wg.Done()
			defer func() { <-sem }()
			to := timeoutS
			if o.Expect == "sat" {
				to = 2
			}
			out[i] = solveOne(e, o, dir, to, seed, all)
		}()
	}
	wg.Wait()
	return out
}
