package main

import (
	"regexp"
	"bytes"
	"context"
	"crypto/sha256"
	"fmt"
	"os"
	"os/exec"
	"path/filepath"
	"strings"
	"sync"
	"time"
)

type SolveResult struct {
	Obl     *Obligation
	Status  string // discharged, refuted, undecided, vacuous-ok, vacuous-bad
	Solver  string
	Time    float64
	Answers map[string]string
	Model   string
	File    string
	Hash    string
}

type solverSpec struct {
	name string
	cmd  func(file string, timeoutS int, seed int) []string
}

// Limits.  The deciding limit of every solver run is a *resource* limit (z3 rlimit, cvc5 --rlimit):
// a deterministic count of solver steps, so that the same query gets the same answer whatever the
// load of the machine.  The figures are calibrated to roughly timeoutS seconds of CPU on an idle
// core of the build machine; the wall-clock limit (four times that) is only a safety net.
const (
	z3NewUnitsPerSec = 1100000
	z3OldUnitsPerSec = 4500000
	cvc5UnitsPerSec  = 100000
	wallFactor       = 4
)

var solvers = []solverSpec{
	{"z3-5.1.0", func(f string, t int, seed int) []string {
		return []string{"z3-new", fmt.Sprintf("-T:%d", wallFactor*t), fmt.Sprintf("rlimit=%d", t*z3NewUnitsPerSec), fmt.Sprintf("smt.random_seed=%d", seed), f}
	}},
	{"z3-4.8.12", func(f string, t int, seed int) []string {
		return []string{"z3", fmt.Sprintf("-T:%d", wallFactor*t), fmt.Sprintf("rlimit=%d", t*z3OldUnitsPerSec), fmt.Sprintf("smt.random_seed=%d", seed), f}
	}},
	{"cvc5-1.0", func(f string, t int, seed int) []string {
		return []string{"cvc5", fmt.Sprintf("--tlimit=%d", wallFactor*t*1000), fmt.Sprintf("--rlimit=%d", t*cvc5UnitsPerSec), fmt.Sprintf("--seed=%d", seed), f}
	}},
}

func (e *Exec) queryText(o *Obligation, withModel bool) string {
	return e.queryTextGoal(o, o.Goal.S, withModel)
}

func (e *Exec) queryTextGoal(o *Obligation, goal string, withModel bool) string {
	var b strings.Builder
	b.WriteString(e.smt.header())
	for _, d := range e.smt.recDefs {
		b.WriteString(d)
		b.WriteByte('\n')
	}
	b.WriteString(e.smt.declText(len(e.smt.decls)))
	for _, a := range e.smt.axioms {
		b.WriteString(a)
		b.WriteByte('\n')
	}
	anc := e.pcAncestors(o.PC.S)
	for i := 0; i < o.NAssume && i < len(e.assumptions); i++ {
		// an assumption made under a path condition that is not part of the goal's path condition belongs
		// to another branch: it cannot help (dropping assumptions is always sound)
		if g := e.assumeGuard[i]; g != "" && anc != nil && strings.HasPrefix(g, "pc!") && !anc[g] {
			continue
		}
		if i < len(e.assumeProps) && len(e.assumeProps[i]) > 0 && e.runProp != "" && !has(e.assumeProps[i], e.runProp) {
			// belongs to another property's run (rests on a precondition that is checked only there)
			continue
		}
		b.WriteString(e.assumptions[i])
		b.WriteByte('\n')
	}
	fmt.Fprintf(&b, "; obligation %s (%s) at %s\n", o.Name, o.Kind, o.Where)
	fmt.Fprintf(&b, "(assert (not (=> %s %s)))\n", o.PC.S, goal)
	b.WriteString("(check-sat)\n")
	if withModel {
		b.WriteString("(get-model)\n")
	}
	return b.String()
}

func runSolver(ctx context.Context, sp solverSpec, file string, timeoutS, seed int) (string, string, float64) {
	args := sp.cmd(file, timeoutS, seed)
	start := time.Now()
	cctx, cancel := context.WithTimeout(ctx, time.Duration(wallFactor*timeoutS+5)*time.Second)
	defer cancel()
	cmd := exec.CommandContext(cctx, args[0], args[1:]...)
	var out bytes.Buffer
	cmd.Stdout = &out
	cmd.Stderr = &out
	_ = cmd.Run()
	el := time.Since(start).Seconds()
	s := out.String()
	first := ""
	for _, l := range strings.Split(s, "\n") {
		l = strings.TrimSpace(l)
		if l == "" || strings.HasPrefix(l, "WARNING") {
			continue
		}
		first = l
		break
	}
	if strings.Contains(s, "(error") && !strings.Contains(s, "model is not available") {
		// an ill-formed query must never count as an answer, whatever the solver prints afterwards
		return "error: " + strings.TrimSpace(firstN(s[strings.Index(s, "(error"):], 300)), s, el
	}
	switch first {
	case "unsat", "sat", "unknown", "timeout":
	default:
		if strings.Contains(s, "error") {
			first = "error: " + strings.TrimSpace(firstN(s, 300))
		} else if first == "" {
			first = "timeout"
		}
	}
	return first, s, el
}

func firstN(s string, n int) string {
	if len(s) > n {
		return s[:n]
	}
	return s
}

// solveOne races the solvers on one obligation.
// solveOne decides one obligation.  A goal that is syntactically a conjunction is decided conjunct by
// conjunct (each an equivalent part of the goal: all must be discharged): solvers are markedly more
// stable on the parts than on the whole.
func solveOne(e *Exec, o *Obligation, dir string, timeoutS int, seed int, all bool) *SolveResult {
	if o.Expect == "sat" || noSplit {
		return solvePiece(e, o, o.Goal.S, "", dir, timeoutS, seed, all)
	}
	pieces := e.splitGoal(o.Goal.S, 0)
	if len(pieces) <= 1 || len(pieces) > 24 {
		return solvePiece(e, o, o.Goal.S, "", dir, timeoutS, seed, all)
	}
	var agg *SolveResult
	for i, pc := range pieces {
		r := solvePiece(e, o, pc, fmt.Sprintf(".part%d", i+1), dir, timeoutS, seed, all)
		if agg == nil {
			agg = r
			continue
		}
		agg.Time += r.Time
		for k, v := range r.Answers {
			if prev, ok := agg.Answers[k]; !ok || prev == "unsat" {
				agg.Answers[k] = v
			}
		}
		if r.Status != "discharged" && agg.Status == "discharged" {
			agg.Status, agg.Solver, agg.Model, agg.File = r.Status, r.Solver, r.Model, r.File
		}
		if agg.Status != "discharged" {
			break
		}
	}
	return agg
}

var noSplit = os.Getenv("GOVC_NOSPLIT") != ""

// solvePiece races the solvers on one query; an inconclusive race is repeated once with other solver
// seeds (a time-out is often a matter of the seed; a second opinion costs time only where the first
// attempt failed).
func solvePiece(e *Exec, o *Obligation, goal string, suffix string, dir string, timeoutS int, seed int, all bool) *SolveResult {
	r := solvePieceOnce(e, o, goal, suffix, dir, timeoutS, seed, all)
	if r.Status == "undecided" && o.Expect != "sat" && !all {
		hasErr := false
		for _, a := range r.Answers {
			if strings.HasPrefix(a, "error") {
				hasErr = true
			}
		}
		if !hasErr {
			r2 := solvePieceOnce(e, o, goal, suffix, dir, timeoutS, seed+7919, all)
			r2.Time += r.Time
			if r2.Status != "undecided" {
				r2.Solver += " (second seed)"
			}
			return r2
		}
	}
	return r
}

func solvePieceOnce(e *Exec, o *Obligation, goal string, suffix string, dir string, timeoutS int, seed int, all bool) *SolveResult {
	text := e.queryTextGoal(o, goal, false)
	h := sha256.Sum256([]byte(text))
	fn := filepath.Join(dir, smtIdent(o.Name)+suffix+".smt2")
	_ = os.WriteFile(fn, []byte(text), 0o644)
	res := &SolveResult{Obl: o, Answers: map[string]string{}, File: fn, Hash: fmt.Sprintf("%x", h[:8])}
	ctx, cancel := context.WithCancel(context.Background())
	defer cancel()
	type ans struct {
		name, first, out string
		t                float64
	}
	ch := make(chan ans, len(solvers))
	order := make([]solverSpec, len(solvers))
	copy(order, solvers)
	for _, sp := range order {
		sp := sp
		go func() {
			f, out, t := runSolver(ctx, sp, fn, timeoutS, seed)
			ch <- ans{sp.name, f, out, t}
		}()
	}
	start := time.Now()
	for i := 0; i < len(order); i++ {
		a := <-ch
		res.Answers[a.name] = a.first
		if a.first == "unsat" || a.first == "sat" {
			if res.Solver == "" {
				res.Solver = a.name
				res.Time = a.t
				if a.first == "unsat" {
					res.Status = "discharged"
				} else {
					res.Status = "refuted"
				}
			} else if (res.Status == "discharged") != (a.first == "unsat") {
				res.Status = "solver-disagreement"
			}
			if !all {
				cancel()
				break
			}
		}
	}
	for _, a := range res.Answers {
		if strings.HasPrefix(a, "error") && !all {
			// one solver rejected the query as ill-formed: nothing any other solver says about it is trusted
			res.Status = ""
		}
	}
	if res.Status == "" {
		res.Status = "undecided"
		res.Time = time.Since(start).Seconds()
	}
	if o.Expect == "sat" {
		// vacuity probe: unsat is bad; sat / unknown is fine
		switch res.Status {
		case "discharged":
			res.Status = "vacuous"
		default:
			res.Status = "nonvacuous"
		}
	}
	if res.Status == "refuted" {
		// get a model from the solver that said sat
		mtext := e.queryTextGoal(o, goal, true)
		mf := fn + ".model.smt2"
		_ = os.WriteFile(mf, []byte(mtext), 0o644)
		for _, sp := range solvers {
			if sp.name == res.Solver {
				_, out, _ := runSolver(context.Background(), sp, mf, timeoutS, seed)
				res.Model = out
			}
		}
	}
	return res
}

func solveAll(e *Exec, obls []*Obligation, dir string, timeoutS, seed int, all bool, par int) []*SolveResult {
	out := make([]*SolveResult, len(obls))
	var wg sync.WaitGroup
	sem := make(chan struct{}, par)
	for i, o := range obls {
		i, o := i, o
		wg.Add(1)
		sem <- struct{}{}
		go func() {
			defer wg.Done()
			defer func() { <-sem }()
			to := timeoutS
			if o.Expect == "sat" {
				to = 2
			}
			out[i] = solveOne(e, o, dir, to, seed, all)
		}()
	}
	wg.Wait()
	return out
}

var pcNameRe = regexp.MustCompile(`pc![0-9]+`)

// pcAncestors: the set of named path conditions the given path condition is built from.
func (e *Exec) pcAncestors(pc string) map[string]bool {
	e.pcMu.Lock()
	defer e.pcMu.Unlock()
	if e.pcParents == nil {
		e.pcParents = map[string][]string{}
		for _, d := range e.smt.decls {
			if strings.HasPrefix(d.Name, "pc!") {
				e.pcParents[d.Name] = pcNameRe.FindAllString(d.Text[len("(define-fun "+d.Name):], -1)
			}
		}
	}
	roots := pcNameRe.FindAllString(pc, -1)
	if len(roots) == 0 {
		return nil
	}
	out := map[string]bool{}
	var visit func(string)
	visit = func(n string) {
		if out[n] {
			return
		}
		out[n] = true
		for _, p := range e.pcParents[n] {
			visit(p)
		}
	}
	for _, r := range roots {
		visit(r)
	}
	return out
}

// quickValid asks one solver, with a short time-out, whether cond holds at this point.  It is used
// only to simplify the encoding (e.g. "this append never reallocates"); an inconclusive answer
// keeps the general encoding.
func (e *Exec) quickValid(st *State, cond Term, ms int) bool {
	if e.quant > 0 || e.noQuick {
		return false
	}
	o := &Obligation{Name: "quick", Kind: "quick", PC: st.pc, Goal: cond, NAssume: len(e.assumptions), NDecl: len(e.smt.decls)}
	e.pcMu.Lock()
	e.pcParents = nil // definitions grow during generation
	e.pcMu.Unlock()
	text := e.queryText(o, false)
	e.pcMu.Lock()
	e.pcParents = nil
	e.pcMu.Unlock()
	f, err := os.CreateTemp("", "govc-quick-*.smt2")
	if err != nil {
		return false
	}
	defer os.Remove(f.Name())
	f.WriteString(text)
	f.Close()
	// (resource limit rather than time: the encoding chosen must not depend on the load of the machine)
	ctx, cancel := context.WithTimeout(context.Background(), time.Duration(10*ms+2000)*time.Millisecond)
	defer cancel()
	out, _ := exec.CommandContext(ctx, "z3-new", fmt.Sprintf("rlimit=%d", ms*z3NewUnitsPerSec/1000), f.Name()).Output()
	for _, l := range strings.Split(string(out), "\n") {
		l = strings.TrimSpace(l)
		if l == "" || strings.HasPrefix(l, "WARNING") {
			continue
		}
		return l == "unsat"
	}
	return false
}

// ---------------------------------------------------------------------------------------------
// goal splitting

// sexprParts splits "(head a1 ... an)" into its head and top-level arguments.
func sexprParts(s string) (string, []string, bool) {
	s = strings.TrimSpace(s)
	if len(s) < 2 || s[0] != '(' || s[len(s)-1] != ')' {
		return "", nil, false
	}
	in := s[1 : len(s)-1]
	var parts []string
	depth, start := 0, -1
	for i := 0; i < len(in); i++ {
		c := in[i]
		switch {
		case c == '"':
			if start < 0 {
				start = i
			}
			for i++; i < len(in) && in[i] != '"'; i++ {
			}
		case c == '|':
			if start < 0 {
				start = i
			}
			for i++; i < len(in) && in[i] != '|'; i++ {
			}
		case c == '(':
			if depth == 0 && start < 0 {
				start = i
			}
			depth++
		case c == ')':
			depth--
			if depth < 0 {
				return "", nil, false
			}
			if depth == 0 {
				parts = append(parts, in[start:i+1])
				start = -1
			}
		case c == ' ' || c == '\n' || c == '\t':
			if depth == 0 && start >= 0 {
				parts = append(parts, in[start:i])
				start = -1
			}
		default:
			if start < 0 {
				start = i
			}
		}
	}
	if depth != 0 {
		return "", nil, false
	}
	if start >= 0 {
		parts = append(parts, in[start:])
	}
	if len(parts) == 0 {
		return "", nil, false
	}
	return parts[0], parts[1:], true
}

// splitGoal returns formulas whose conjunction is equivalent to g.
func (e *Exec) splitGoal(g string, depth int) []string {
	g = strings.TrimSpace(g)
	if depth > 40 {
		return []string{g}
	}
	if !strings.HasPrefix(g, "(") {
		if body, ok := e.smt.alias[g]; ok && g != "true" && g != "false" {
			if ps := e.splitGoal(body, depth+1); len(ps) > 1 {
				return ps
			}
		}
		return []string{g}
	}
	head, args, ok := sexprParts(g)
	if !ok {
		return []string{g}
	}
	switch {
	case head == "and" && len(args) > 0:
		var out []string
		for _, a := range args {
			out = append(out, e.splitGoal(a, depth+1)...)
		}
		return out
	case head == "ite" && len(args) == 3:
		c, a, b := args[0], strings.TrimSpace(args[1]), strings.TrimSpace(args[2])
		switch {
		case a == "false": // not c and b
			return append(e.splitGoal("(not "+c+")", depth+1), e.splitGoal(b, depth+1)...)
		case b == "false": // c and a
			return append(e.splitGoal(c, depth+1), e.splitGoal(a, depth+1)...)
		case a == "true": // c or b
			var out []string
			for _, p := range e.splitGoal(b, depth+1) {
				out = append(out, "(or "+c+" "+p+")")
			}
			return out
		case b == "true": // c implies a
			var out []string
			for _, p := range e.splitGoal(a, depth+1) {
				out = append(out, "(=> "+c+" "+p+")")
			}
			return out
		}
	case head == "=>" && len(args) == 2:
		var out []string
		for _, p := range e.splitGoal(args[1], depth+1) {
			out = append(out, "(=> "+args[0]+" "+p+")")
		}
		return out
	case head == "not" && len(args) == 1:
		if h2, a2, ok2 := sexprParts(args[0]); ok2 && h2 == "not" && len(a2) == 1 {
			return e.splitGoal(a2[0], depth+1)
		}
	}
	return []string{g}
}
