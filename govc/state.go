package main

import (
	"fmt"
	"go/types"
	"sort"
	"strings"

	"golang.org/x/tools/go/ssa"
)

// Value is a symbolic value: Term, *Tuple, *Ptr, *Closure, *FuncVal.
type Value interface{}

type Tuple struct{ Vals []Value }

type Closure struct {
	Fn       *ssa.Function
	Bindings []Value
}

type FuncVal struct{ Fn *ssa.Function }

type Cell struct {
	id   int
	name string
	typ  types.Type
}

const (
	pCell = iota
	pHeap // field path inside a heap object (struct / cell / array) identified by Ref
	pElem // element Idx of backing array Ref, then field path
	pGlobal
)

// Ptr is a symbolic location.
type Ptr struct {
	Kind   int
	Cell   *Cell
	Ref    Term
	Idx    Term
	Root   types.Type // type of the root object (cell type, heap object type, element type)
	Path   []int      // struct-field path below the root
	Type   types.Type // type of the location itself
	Global *ssa.Global
	GhostName string
}

func (p *Ptr) key() string {
	var b strings.Builder
	fmt.Fprintf(&b, "%d|", p.Kind)
	if p.Cell != nil {
		fmt.Fprintf(&b, "c%d|", p.Cell.id)
	}
	b.WriteString(p.Ref.S)
	b.WriteByte('|')
	b.WriteString(p.Idx.S)
	for _, i := range p.Path {
		fmt.Fprintf(&b, ".%d", i)
	}
	if p.Global != nil {
		b.WriteString(p.Global.String())
	}
	return b.String()
}

type deferred struct {
	call *ssa.CallCommon
	fr   *frame
	args []Value
	fnv  Value
}

// State is the symbolic state at a program point (one per merged path set).
type State struct {
	pc     Term
	cells  map[*Cell]Value
	heap   map[string]Term // component -> array term
	alloc  Term            // allocation counter (objects with 0 < ref <= alloc exist)
	defers []deferred
	panicking bool // this path is unwinding after a panic of a `maypanic` callee (until recover() is called)
	locks  map[string]int // held locks (by key) — lock discipline tracking
	ghost  map[string]Term
	oldMode int
	oldView *State // private copy of the old state while evaluating old(e): reads and (spec-local) writes go there
	epoch   int
	etree   *epochTree // set after a join of paths with different heap epochs: untouched components resolve per path
}

// epochTree describes the heap base of a state that was merged from paths in different heap epochs.
type epochTree struct {
	epoch    int
	branches []epochBranch
}

type epochBranch struct {
	pc  Term
	sub *epochTree
}

func (s *State) clone() *State {
	n := &State{pc: s.pc, alloc: s.alloc, oldMode: s.oldMode, epoch: s.epoch, oldView: s.oldView, etree: s.etree, panicking: s.panicking}
	n.cells = make(map[*Cell]Value, len(s.cells))
	for k, v := range s.cells {
		n.cells[k] = v
	}
	n.heap = make(map[string]Term, len(s.heap))
	for k, v := range s.heap {
		n.heap[k] = v
	}
	n.defers = append([]deferred{}, s.defers...)
	n.locks = make(map[string]int, len(s.locks))
	for k, v := range s.locks {
		n.locks[k] = v
	}
	return n
}

// ---------------------------------------------------------------------------------------------
// Types and sorts

type TypeInfo struct {
	smt      *SMT
	structNm map[string]string // types.Type string -> datatype name
	tags     map[string]int
	nanon    int
}

func newTypeInfo(m *SMT) *TypeInfo {
	return &TypeInfo{smt: m, structNm: map[string]string{}, tags: map[string]int{}}
}

func (ti *TypeInfo) tagOf(t types.Type) int {
	k := t.String()
	if n, ok := ti.tags[k]; ok {
		return n
	}
	n := len(ti.tags) + 1
	ti.tags[k] = n
	return n
}

func typeShort(t types.Type) string {
	s := types.TypeString(t, func(p *types.Package) string { return p.Name() })
	return smtIdent(s)
}

func isVcSeq(t types.Type) (types.Type, bool) {
	n, ok := t.(*types.Named)
	if !ok {
		return nil, false
	}
	name := n.Obj().Name()
	if o := n.Origin(); o != nil {
		name = o.Obj().Name()
	}
	if name != "vcSeq" {
		return nil, false
	}
	if sl, ok := n.Underlying().(*types.Slice); ok {
		return sl.Elem(), true
	}
	return nil, false
}

func isVcSet(t types.Type) (types.Type, bool) {
	n, ok := t.(*types.Named)
	if !ok {
		return nil, false
	}
	name := n.Obj().Name()
	if o := n.Origin(); o != nil {
		name = o.Obj().Name()
	}
	if name != "vcSet" {
		return nil, false
	}
	if m, ok := n.Underlying().(*types.Map); ok {
		return m.Key(), true
	}
	return nil, false
}

func (ti *TypeInfo) sortOf(t types.Type) string {
	if et, ok := isVcSeq(t); ok {
		return arraySort(SInt, ti.sortOf(et))
	}
	if kt, ok := isVcSet(t); ok {
		return arraySort(ti.sortOf(kt), SBool)
	}
	switch u := t.Underlying().(type) {
	case *types.Basic:
		switch {
		case u.Info()&types.IsBoolean != 0:
			return SBool
		case u.Info()&types.IsString != 0:
			return SStr
		case u.Info()&types.IsFloat != 0:
			return "Real"
		default:
			return SInt
		}
	case *types.Pointer, *types.Map, *types.Chan, *types.Signature, *types.Interface:
		return SInt
	case *types.Slice:
		return SSlice
	case *types.Struct:
		return ti.structSort(t, u)
	case *types.Array:
		return arraySort(SInt, ti.sortOf(u.Elem()))
	case *types.Tuple:
		return "Tuple"
	}
	return SInt
}

func (ti *TypeInfo) structSort(t types.Type, st *types.Struct) string {
	key := t.String()
	if n, ok := ti.structNm[key]; ok {
		return n
	}
	var name string
	if nt, ok := t.(*types.Named); ok {
		name = "S_" + typeShort(nt)
	} else {
		ti.nanon++
		name = fmt.Sprintf("S_anon%d", ti.nanon)
	}
	ti.structNm[key] = name
	var fs, ss []string
	for i := 0; i < st.NumFields(); i++ {
		fs = append(fs, fmt.Sprintf("%s.%s", name, fieldIdent(st, i)))
		ss = append(ss, ti.sortOf(st.Field(i).Type()))
	}
	if len(fs) == 0 {
		fs = append(fs, name+".$unit")
		ss = append(ss, SInt)
	}
	ti.smt.declareDatatype(name, fs, ss)
	return name
}

func (ti *TypeInfo) fieldAcc(t types.Type, i int) string {
	st := t.Underlying().(*types.Struct)
	name := ti.structSort(t, st)
	return fmt.Sprintf("%s.%s", name, fieldIdent(st, i))
}

// fieldIdent: the accessor name of field i; blank fields (several `_` in one struct, e.g. the noCopy
// markers of sync/atomic types) are numbered.
func fieldIdent(st *types.Struct, i int) string {
	if st.Field(i).Name() == "_" {
		return fmt.Sprintf("_blank%d", i)
	}
	return smtIdent(st.Field(i).Name())
}

func (ti *TypeInfo) zero(t types.Type) Term {
	if kt, ok := isVcSet(t); ok {
		// the empty set
		srt := arraySort(ti.sortOf(kt), SBool)
		return Term{fmt.Sprintf("((as const %s) false)", srt), srt}
	}
	if et, ok := isVcSeq(t); ok {
		if es := ti.sortOf(et); es == SInt || es == SBool {
			srt := arraySort(SInt, es)
			return Term{fmt.Sprintf("((as const %s) %s)", srt, ti.zero(et).S), srt}
		}
	}
	switch u := t.Underlying().(type) {
	case *types.Basic:
		switch {
		case u.Info()&types.IsBoolean != 0:
			return tFalse
		case u.Info()&types.IsString != 0:
			return Term{"sempty", SStr}
		case u.Info()&types.IsFloat != 0:
			return Term{"0.0", "Real"}
		default:
			return tInt(0)
		}
	case *types.Slice:
		return nilSlice
	case *types.Struct:
		name := ti.structSort(t, u)
		var args []Term
		for i := 0; i < u.NumFields(); i++ {
			args = append(args, ti.zero(u.Field(i).Type()))
		}
		if len(args) == 0 {
			args = append(args, tInt(0))
		}
		return app(name, "mk_"+name, args...)
	case *types.Array:
		es := ti.sortOf(u.Elem())
		return Term{fmt.Sprintf("((as const %s) %s)", arraySort(SInt, es), ti.zero(u.Elem()).S), arraySort(SInt, es)}
	}
	return tInt(0)
}

// rangeFact returns the type-range constraint for an integer-typed term (or true).
func rangeFact(t types.Type, v Term) Term {
	b, ok := t.Underlying().(*types.Basic)
	if !ok {
		return tTrue
	}
	switch b.Kind() {
	case types.Uint8:
		return tAnd(tLe(tInt(0), v), tLe(v, tInt(255)))
	case types.Int8:
		return tAnd(tLe(tInt(-128), v), tLe(v, tInt(127)))
	case types.Uint16:
		return tAnd(tLe(tInt(0), v), tLe(v, tInt(65535)))
	case types.Int16:
		return tAnd(tLe(tInt(-32768), v), tLe(v, tInt(32767)))
	case types.Uint32:
		return tAnd(tLe(tInt(0), v), tLe(v, tInt(4294967295)))
	case types.Int32:
		return tAnd(tLe(tInt(-2147483648), v), tLe(v, tInt(2147483647)))
	case types.Uint, types.Uint64, types.Uintptr:
		return tLe(tInt(0), v)
	}
	return tTrue
}

// leaf describes one scalar component of a (possibly nested) struct type.
type leaf struct {
	path []int
	typ  types.Type
}

func leaves(t types.Type) []leaf {
	st, ok := t.Underlying().(*types.Struct)
	if !ok {
		return []leaf{{nil, t}}
	}
	var out []leaf
	for i := 0; i < st.NumFields(); i++ {
		for _, l := range leaves(st.Field(i).Type()) {
			out = append(out, leaf{append([]int{i}, l.path...), l.typ})
		}
	}
	return out
}

func typeAtPath(t types.Type, path []int) types.Type {
	for _, i := range path {
		t = t.Underlying().(*types.Struct).Field(i).Type()
	}
	return t
}

func pathName(t types.Type, path []int) string {
	var parts []string
	for _, i := range path {
		st := t.Underlying().(*types.Struct)
		parts = append(parts, st.Field(i).Name())
		t = st.Field(i).Type()
	}
	return strings.Join(parts, ".")
}

// component names
func (ti *TypeInfo) fieldComp(root types.Type, path []int) (string, string) {
	lt := typeAtPath(root, path)
	return "F." + typeShort(root) + "." + pathName(root, path), ti.sortOf(lt)
}

func (ti *TypeInfo) elemComp(elem types.Type, path []int) (string, string) {
	lt := typeAtPath(elem, path)
	if _, ok := elem.Underlying().(*types.Struct); ok {
		return "E." + typeShort(elem) + "." + pathName(elem, path), ti.sortOf(lt)
	}
	return "E." + typeShort(elem), ti.sortOf(lt)
}

func (ti *TypeInfo) cellComp(t types.Type) (string, string) {
	s := ti.sortOf(t)
	return "C." + typeShort(t), s
}

func sortedCells(m map[*Cell]Value) []*Cell {
	var cs []*Cell
	for c := range m {
		cs = append(cs, c)
	}
	sort.Slice(cs, func(i, j int) bool { return cs[i].id < cs[j].id })
	return cs
}
