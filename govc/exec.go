package main

import (
	"fmt"
	"go/ast"
	"go/token"
	"go/types"
	"sort"
	"strings"
	"sync"

	"golang.org/x/tools/go/ssa"
)

// Obligation is one proof obligation: assumptions[:NAssume] /\ decls[:NDecl] |- PC => Goal.
type Obligation struct {
	Name    string
	Kind    string
	Fn      string
	Props   []string
	PC      Term
	Goal    Term
	NAssume int
	NDecl   int
	NAxiom  int
	Where   string
	Expect  string // "unsat" (default) or "sat" for vacuity probes
	Detail  string
}

type Exec struct {
	w                                 *World
	cs                                *ContractSet
	smt                               *SMT
	ti                                *TypeInfo
	assumptions                       []string
	obls                              []*Obligation
	fnKey                             string
	props                             []string
	quant                             int // inside a quantifier body: no definitions, no assumptions
	quantAnte                         []Term
	spec                              int // executing specification code: no safety obligations
	oldHeaps                          []*State
	errs                              []string
	ncell                             int
	depth                             int
	oblNames                          map[string]int
	curLabel                          string
	entry                             *State
	trust                             []string // assumptions used (ext contracts, trusted contracts, dropped constructs)
	trustSeen                         map[string]bool
	inlineStack                       []string
	recFns                            map[string]bool
	modCollect                        *[]*Ptr
	havocEverything                   bool
	triggers                          []Term
	notes                             []string
	topMods                           []*Ptr
	topStar                           bool
	ghostSorts                        map[string]string
	ghostIdx                          map[string]string
	boxAx                             map[string]bool
	acqCache                          map[*ssa.Function]bool
	frameStack                        []*frame
	nGuard, nGuardSyntactic, nLockOps int
	entryAlloc                        Term
	topCt                             *Contract
	nepoch                            int
	boxInfo                           map[string]boxed
	curCall                           *ssa.CallCommon
	curFrame                          *frame
	pcMu                              sync.Mutex
	noQuick                           bool
	assumeSeen                        map[string]bool
	assumeGuard                       []string
	// assumptions that belong to one property's run only (a precondition stated for that property, and what
	// rests on it): assumeProps[i] is nil for ordinary assumptions; curAssumeProps tags the assumptions made
	// while it is set; runProp is the property being decided ("" = all, e.g. `govc fn`)
	assumeProps    [][]string
	curAssumeProps []string
	runProp        string
	pcParents      map[string][]string
	topRets        []retInfo
	mapSeqs        map[string]Term
	topArgs        []Value
	recDefs        map[string]bool
	recBuilding    map[string]bool
	ghostByType    map[string][]*ssa.Function
}

func newExec(w *World, cs *ContractSet, fnKey string, props []string) *Exec {
	m := newSMT()
	return &Exec{w: w, cs: cs, smt: m, ti: newTypeInfo(m), fnKey: fnKey, props: props, ghostSorts: map[string]string{}, ghostIdx: map[string]string{}, recDefs: map[string]bool{}, recBuilding: map[string]bool{}, oblNames: map[string]int{}, trustSeen: map[string]bool{}, recFns: map[string]bool{}}
}

func (e *Exec) unsupported(format string, a ...interface{}) {
	msg := fmt.Sprintf(format, a...)
	for _, x := range e.errs {
		if x == msg {
			return
		}
	}
	e.errs = append(e.errs, msg)
}

func (e *Exec) trusted(s string) {
	if !e.trustSeen[s] {
		e.trustSeen[s] = true
		e.trust = append(e.trust, s)
	}
}

func (e *Exec) assume(st *State, fact Term) {
	if fact.S == "true" {
		return
	}
	if e.quant > 0 {
		// inside a quantifier body assumptions cannot be global; they are dropped (sound)
		return
	}
	txt := "(assert " + tImp(st.pc, fact).S + ")"
	if e.assumeSeen == nil {
		e.assumeSeen = map[string]bool{}
	}
	key := txt + "|" + strings.Join(e.curAssumeProps, ",")
	if e.assumeSeen[key] {
		return
	}
	e.assumeSeen[key] = true
	e.assumptions = append(e.assumptions, txt)
	e.assumeGuard = append(e.assumeGuard, st.pc.S)
	e.assumeProps = append(e.assumeProps, e.curAssumeProps)
}

func (e *Exec) assumeGlobal(fact Term) {
	if fact.S == "true" || e.quant > 0 {
		return
	}
	e.assumptions = append(e.assumptions, "(assert "+fact.S+")")
	e.assumeGuard = append(e.assumeGuard, "")
	e.assumeProps = append(e.assumeProps, nil)
}

func (e *Exec) oblige(st *State, kind, name string, goal Term, where string) {
	if e.spec > 0 && kind == "safe" {
		return
	}
	if e.quant > 0 {
		return
	}
	if goal.S == "true" {
		// trivially true: still count as discharged obligation? skip to keep counts meaningful
		return
	}
	full := e.fnKeyShort() + "/" + name
	e.oblNames[full]++
	if n := e.oblNames[full]; n > 1 {
		full = fmt.Sprintf("%s#%d", full, n)
	}
	e.obls = append(e.obls, &Obligation{Name: full, Kind: kind, Fn: e.fnKey, Props: e.props, PC: st.pc, Goal: goal,
		NAssume: len(e.assumptions), NDecl: len(e.smt.decls), Where: where})
}

func (e *Exec) fnKeyShort() string {
	return shortKey(e.fnKey)
}

func shortKey(k string) string {
	k = strings.TrimPrefix(k, repoModule+"/pkg/")
	k = strings.TrimPrefix(k, repoModule+"/")
	// "server/smtp.(*Session).x" -> "smtp.(*Session).x"
	if i := strings.LastIndex(k, "/"); i >= 0 {
		j := strings.Index(k, ".")
		if j > i || j < 0 {
			k = k[i+1:]
		}
	}
	return k
}

func (e *Exec) pos(p token.Pos) string {
	if !p.IsValid() {
		return ""
	}
	ps := e.w.Fset.Position(p)
	return fmt.Sprintf("%s:%d", strings.TrimPrefix(ps.Filename, e.w.RepoDir+"/"), ps.Line)
}

// ---------------------------------------------------------------------------------------------
// heap access

func (e *Exec) heapComp(st *State, name, idxSort, elemSort string) Term {
	if st.oldMode > 0 && st.oldView != nil {
		return e.heapComp(st.oldView, name, idxSort, elemSort)
	}
	if t, ok := st.heap[name]; ok {
		return t
	}
	// not yet touched on this path: the initial symbol of the current heap epoch (epoch 0 = function
	// entry; a call of unknown code starts a new epoch in which nothing is known about any component)
	_ = idxSort
	if st.etree != nil {
		t := e.baseOfTree(st.etree, name, elemSort)
		if e.quant == 0 && st.oldMode == 0 {
			t = e.smt.define("hb."+name, t)
			st.heap[name] = t
		}
		return t
	}
	return e.baseSym(st.epoch, name, elemSort)
}

func (e *Exec) baseSym(epoch int, name, elemSort string) Term {
	sym := "H." + smtIdent(name) + "!0"
	if epoch > 0 {
		sym = fmt.Sprintf("H.%s!e%d", smtIdent(name), epoch)
	}
	e.smt.declare(sym, elemSort)
	return Term{sym, elemSort}
}

func (e *Exec) baseOfTree(t *epochTree, name, elemSort string) Term {
	if len(t.branches) == 0 {
		return e.baseSym(t.epoch, name, elemSort)
	}
	r := e.baseOfTree(t.branches[len(t.branches)-1].sub, name, elemSort)
	for i := len(t.branches) - 2; i >= 0; i-- {
		r = tIte(t.branches[i].pc, e.baseOfTree(t.branches[i].sub, name, elemSort), r)
	}
	return r
}

func (e *Exec) setHeap(st *State, name string, t Term) {
	if st.oldMode > 0 && st.oldView != nil {
		// allocation / initialisation inside old(e) (e.g. the argument array of a variadic call)
		st.oldView.heap[name] = t
		return
	}
	if e.quant == 0 {
		t = e.smt.define("h."+name, t)
	}
	st.heap[name] = t
}

func (e *Exec) newCell(name string, t types.Type) *Cell {
	e.ncell++
	return &Cell{id: e.ncell, name: name, typ: t}
}

// allocRef returns a fresh object reference and bumps the allocation counter.
func (e *Exec) allocRef(st *State, hint string) Term {
	na := e.smt.define("alloc", tAdd(st.alloc, tInt(1)))
	st.alloc = na
	return na
}

func (e *Exec) load(st *State, p *Ptr) Value {
	switch p.Kind {
	case pCell:
		v, ok := st.cells[p.Cell]
		if !ok {
			v = e.ti.zero(p.Cell.typ)
		}
		if len(p.Path) == 0 {
			return v
		}
		t, ok := v.(Term)
		if !ok {
			e.unsupported("field read of non-term cell %s", p.Cell.name)
			return e.smt.fresh("unk", e.ti.sortOf(p.Type))
		}
		rt := p.Root
		for _, i := range p.Path {
			acc := e.ti.fieldAcc(rt, i)
			ft := rt.Underlying().(*types.Struct).Field(i).Type()
			t = app(e.ti.sortOf(ft), acc, t)
			rt = ft
		}
		return t
	case pHeap, pElem:
		if _, isStruct := p.Type.Underlying().(*types.Struct); isStruct {
			return e.loadStruct(st, p)
		}
		return e.loadLeaf(st, p)
	case pGlobal:
		return e.loadGlobal(st, p)
	}
	e.unsupported("load of unknown pointer kind")
	return tInt(0)
}

func (e *Exec) loadLeaf(st *State, p *Ptr) Term {
	switch p.Kind {
	case pHeap:
		if _, isStruct := p.Root.Underlying().(*types.Struct); isStruct {
			name, s := e.ti.fieldComp(p.Root, p.Path)
			e.wfInitial(name, false, arraySort(SInt, s), p.Type)
			arr := e.heapComp(st, name, SInt, arraySort(SInt, s))
			return tSelect(arr, p.Ref, s)
		}
		name, s := e.ti.cellComp(p.Root)
		e.wfInitial(name, false, arraySort(SInt, s), p.Type)
		arr := e.heapComp(st, name, SInt, arraySort(SInt, s))
		return tSelect(arr, p.Ref, s)
	case pElem:
		name, s := e.ti.elemComp(p.Root, p.Path)
		e.wfInitial(name, true, arraySort(SInt, arraySort(SInt, s)), p.Type)
		arr := e.heapComp(st, name, SInt, arraySort(SInt, arraySort(SInt, s)))
		return tSelect(tSelect(arr, p.Ref, arraySort(SInt, s)), p.Idx, s)
	}
	panic("loadLeaf")
}

// wfInitial states, once per heap component, that the heap *at function entry* is well typed:
// every reference stored in it was allocated before entry, integers are within their type's range.
func (e *Exec) wfInitial(name string, elem bool, sort string, t types.Type) {
	key := "wf:" + name
	if e.smt.axiomDone[key] || e.entryAlloc.S == "" {
		return
	}
	e.smt.axiomDone[key] = true
	sym := "H." + smtIdent(name) + "!0"
	e.smt.declare(sym, sort)
	tmp := &State{alloc: e.entryAlloc}
	var sel Term
	var bound string
	if elem {
		sel = Term{fmt.Sprintf("(select (select %s wa) wi)", sym), e.ti.sortOf(t)}
		bound = "(wa Int) (wi Int)"
	} else {
		sel = Term{fmt.Sprintf("(select %s wr)", sym), e.ti.sortOf(t)}
		bound = "(wr Int)"
	}
	if !elem {
		// the nil object has no fields: reading one (only possible in specifications, e.g. a modifies
		// clause naming a field of a mailbox that does not exist yet) yields the zero value
		e.smt.axioms = append(e.smt.axioms, fmt.Sprintf("(assert (= (select %s 0) %s))", sym, e.ti.zero(t).S))
	}
	f := e.wellTyped(tmp, t, sel)
	if f.S == "true" {
		return
	}
	// only objects that exist at entry: the content of unallocated cells is unconstrained (a callee's
	// fresh objects are described by its postcondition)
	if elem {
		f = tImp(Term{fmt.Sprintf("(and (< 0 wa) (<= wa %s))", e.entryAlloc.S), SBool}, f)
	} else {
		f = tImp(Term{fmt.Sprintf("(and (< 0 wr) (<= wr %s))", e.entryAlloc.S), SBool}, f)
	}
	e.smt.axioms = append(e.smt.axioms, fmt.Sprintf("(assert (forall (%s) (! %s :pattern (%s))))", bound, f.S, sel.S))
}

func (e *Exec) loadStruct(st *State, p *Ptr) Term {
	stt := p.Type.Underlying().(*types.Struct)
	name := e.ti.structSort(p.Type, stt)
	var args []Term
	for i := 0; i < stt.NumFields(); i++ {
		fp := *p
		fp.Path = append(append([]int{}, p.Path...), i)
		fp.Type = stt.Field(i).Type()
		v := e.load(st, &fp)
		t, ok := v.(Term)
		if !ok {
			e.unsupported("struct field holding non-term value")
			t = tInt(0)
		}
		args = append(args, t)
	}
	if len(args) == 0 {
		args = append(args, tInt(0))
	}
	return app(name, "mk_"+name, args...)
}

func (e *Exec) store(st *State, p *Ptr, v Value) {
	switch p.Kind {
	case pCell:
		if len(p.Path) == 0 {
			if t, ok := v.(Term); ok && e.quant == 0 {
				v = e.smt.define(p.Cell.name, t)
			}
			st.cells[p.Cell] = v
			return
		}
		cur, ok := st.cells[p.Cell]
		if !ok {
			cur = e.ti.zero(p.Cell.typ)
		}
		ct, ok1 := cur.(Term)
		vt, ok2 := v.(Term)
		if !ok1 || !ok2 {
			e.unsupported("field store of non-term into cell %s", p.Cell.name)
			return
		}
		nt := e.updatePath(p.Root, ct, p.Path, vt)
		if e.quant == 0 {
			nt = e.smt.define(p.Cell.name, nt)
		}
		st.cells[p.Cell] = nt
	case pHeap, pElem:
		vt := e.asTerm(st, v, p.Type)
		if stt, isStruct := p.Type.Underlying().(*types.Struct); isStruct {
			for i := 0; i < stt.NumFields(); i++ {
				fp := *p
				fp.Path = append(append([]int{}, p.Path...), i)
				fp.Type = stt.Field(i).Type()
				e.store(st, &fp, app(e.ti.sortOf(fp.Type), e.ti.fieldAcc(p.Type, i), vt))
			}
			return
		}
		e.storeLeaf(st, p, vt)
	case pGlobal:
		e.unsupported("store to global %s", p.Global.Name())
	}
}

func (e *Exec) storeLeaf(st *State, p *Ptr, v Term) {
	switch p.Kind {
	case pHeap:
		var name, s string
		if _, isStruct := p.Root.Underlying().(*types.Struct); isStruct {
			name, s = e.ti.fieldComp(p.Root, p.Path)
		} else {
			name, s = e.ti.cellComp(p.Root)
		}
		arr := e.heapComp(st, name, SInt, arraySort(SInt, s))
		e.setHeap(st, name, tStore(arr, p.Ref, v))
	case pElem:
		name, s := e.ti.elemComp(p.Root, p.Path)
		as := arraySort(SInt, s)
		arr := e.heapComp(st, name, SInt, arraySort(SInt, as))
		inner := tSelect(arr, p.Ref, as)
		e.setHeap(st, name, tStore(arr, p.Ref, tStore(inner, p.Idx, v)))
	}
}

// updatePath rebuilds a struct datatype value with the leaf at path replaced.
func (e *Exec) updatePath(t types.Type, cur Term, path []int, v Term) Term {
	if len(path) == 0 {
		return v
	}
	stt := t.Underlying().(*types.Struct)
	name := e.ti.structSort(t, stt)
	var args []Term
	for i := 0; i < stt.NumFields(); i++ {
		ft := stt.Field(i).Type()
		f := app(e.ti.sortOf(ft), e.ti.fieldAcc(t, i), cur)
		if i == path[0] {
			f = e.updatePath(ft, f, path[1:], v)
		}
		args = append(args, f)
	}
	return app(name, "mk_"+name, args...)
}

func (e *Exec) loadGlobal(st *State, p *Ptr) Value {
	g := p.Global
	sym := "G." + smtIdent(g.Pkg.Pkg.Name()+"."+g.Name())
	et := g.Type().(*types.Pointer).Elem()
	s := e.ti.sortOf(et)
	e.smt.declare(sym, s)
	t := Term{sym, s}
	if len(p.Path) > 0 {
		rt := et
		for _, i := range p.Path {
			ft := rt.Underlying().(*types.Struct).Field(i).Type()
			t = app(e.ti.sortOf(ft), e.ti.fieldAcc(rt, i), t)
			rt = ft
		}
		return t
	}
	if pt, ok := et.(*types.Pointer); ok {
		if n, ok := pt.Elem().(*types.Named); ok && n.Obj().Pkg() != nil && n.Obj().Pkg().Path() == "regexp" && n.Obj().Name() == "Regexp" {
			e.regexpGlobalFacts(g, t)
		}
	}
	if types.Identical(et, errorType) {
		// package-level error sentinels: non-nil and pairwise distinct (assumed; they are initialised
		// once by errors.New / fmt.Errorf and never reassigned)
		e.trusted("package-level error variables (" + g.Pkg.Pkg.Name() + "." + g.Name() + ") are non-nil, distinct and never reassigned")
		e.smt.axiom("glob:"+sym, fmt.Sprintf("(assert (and (< %s 0) (= %s (- 0 %d))))", sym, sym, 1000+e.ti.tagOf(types.NewPointer(types.NewNamed(types.NewTypeName(0, g.Pkg.Pkg, "glob$"+g.Name(), nil), types.Typ[types.Int], nil)))))
	}
	return t
}

var errorType = types.Universe.Lookup("error").Type()

// asTerm converts a value to an SMT term of the sort of type t.
func (e *Exec) asTerm(st *State, v Value, t types.Type) Term {
	switch x := v.(type) {
	case Term:
		return x
	case *Ptr:
		if x.Kind == pHeap && len(x.Path) == 0 {
			return x.Ref
		}
		if x.Kind == pCell {
			e.unsupported("address of local %s escapes into a term", x.Cell.name)
			return e.smt.fresh("esc", SInt)
		}
		if x.Kind == pHeap {
			// interior pointer: injective encoding
			name, _ := e.ti.fieldComp(x.Root, x.Path)
			f := "iptr." + smtIdent(name)
			e.smt.declareFun(f, []string{SInt}, SInt)
			e.smt.declareFun(f+".inv", []string{SInt}, SInt)
			r := app(SInt, f, x.Ref)
			e.assumeGlobal(tAnd(tEq(app(SInt, f+".inv", r), x.Ref), tLt(r, tInt(0))))
			return r
		}
		e.unsupported("pointer value of unsupported shape needs an SMT encoding")
		return e.smt.fresh("ptr", SInt)
	case *Closure:
		return e.funcTerm(x.Fn)
	case *FuncVal:
		return e.funcTerm(x.Fn)
	case nil:
		return tInt(0)
	}
	e.unsupported("value %T cannot be encoded", v)
	return tInt(0)
}

func (e *Exec) funcTerm(fn *ssa.Function) Term {
	sym := "fn." + smtIdent(fn.String())
	e.smt.declare(sym, SInt)
	e.smt.axiom("fn:"+sym, fmt.Sprintf("(assert (< %s 0))", sym))
	return Term{sym, SInt}
}

// asPtr converts a pointer-typed value to a location.
func (e *Exec) asPtr(v Value, ptrType types.Type) *Ptr {
	if p, ok := v.(*Ptr); ok {
		return p
	}
	t, ok := v.(Term)
	if !ok {
		e.unsupported("value %T used as pointer", v)
		t = tInt(0)
	}
	pt, ok := ptrType.Underlying().(*types.Pointer)
	if !ok {
		e.unsupported("asPtr on non-pointer type %s", ptrType)
		return &Ptr{Kind: pHeap, Ref: t, Root: types.Typ[types.Int], Type: types.Typ[types.Int]}
	}
	return &Ptr{Kind: pHeap, Ref: t, Root: pt.Elem(), Type: pt.Elem()}
}

// ---------------------------------------------------------------------------------------------
// frames

type frame struct {
	fn           *ssa.Function
	vals         map[ssa.Value]Value
	cells        map[*ssa.Alloc]*Cell
	c            *Contract
	curIns       []edgeIn
	curBlock     *ssa.BasicBlock
	iterPos      map[ssa.Value]*Cell
	iterCount    map[ssa.Value]*Cell
	iterOf       map[ssa.Value]Value
	entryState   *State
	bindings     []Value
	loopHeads    map[*ssa.BasicBlock]int // header -> ordinal
	args         []Value
	entryArgs    []Value
	rangeIdxCell map[*ssa.BasicBlock]*Cell
	panicExits   []*State // states in which a `maypanic` callee panicked inside this frame
	parent       *frame   // the frame this one is executed in place for (inlined callee / closure), if any
}

func (e *Exec) constVal(c *ssa.Const) Value {
	t := c.Type()
	if c.Value == nil {
		// zero value / nil
		if _, ok := t.Underlying().(*types.Tuple); ok {
			return &Tuple{}
		}
		return e.ti.zero(t)
	}
	switch u := t.Underlying().(type) {
	case *types.Basic:
		switch {
		case u.Info()&types.IsBoolean != 0:
			return tBool(constantBool(c))
		case u.Info()&types.IsString != 0:
			return e.smt.strConst(constantString(c))
		case u.Info()&types.IsInteger != 0:
			if u.Info()&types.IsUnsigned != 0 {
				return Term{fmt.Sprintf("%d", c.Uint64()), SInt}
			}
			return tInt(c.Int64())
		case u.Info()&types.IsFloat != 0:
			return Term{fmt.Sprintf("%f", c.Float64()), "Real"}
		}
	}
	e.unsupported("constant of type %s", t)
	return tInt(0)
}

func (e *Exec) val(fr *frame, st *State, v ssa.Value) Value {
	switch x := v.(type) {
	case *ssa.Const:
		return e.constVal(x)
	case *ssa.Global:
		return &Ptr{Kind: pGlobal, Global: x, Type: x.Type().(*types.Pointer).Elem(), Root: x.Type().(*types.Pointer).Elem()}
	case *ssa.Function:
		return &FuncVal{x}
	case *ssa.Builtin:
		return x
	case *ssa.FreeVar:
		for i, fv := range fr.fn.FreeVars {
			if fv == x {
				return fr.bindings[i]
			}
		}
	}
	if r, ok := fr.vals[v]; ok {
		return r
	}
	e.unsupported("use of undefined SSA value %s (%T) in %s", v.Name(), v, fr.fn)
	return e.smt.fresh("undef", e.ti.sortOf(v.Type()))
}

func (e *Exec) term(fr *frame, st *State, v ssa.Value) Term {
	return e.asTerm(st, e.val(fr, st, v), v.Type())
}

// ---------------------------------------------------------------------------------------------
// CFG helpers

type loopInfo struct {
	follow     *ssa.BasicBlock
	followDone bool
	head       *ssa.BasicBlock
	blocks     map[*ssa.BasicBlock]bool
	ord        int
}

func backEdges(fn *ssa.Function) map[*ssa.BasicBlock][]*ssa.BasicBlock {
	be := map[*ssa.BasicBlock][]*ssa.BasicBlock{}
	for _, b := range fn.Blocks {
		for _, s := range b.Succs {
			if s.Dominates(b) {
				be[s] = append(be[s], b)
			}
		}
	}
	return be
}

func findLoops(fn *ssa.Function) map[*ssa.BasicBlock]*loopInfo {
	be := backEdges(fn)
	loops := map[*ssa.BasicBlock]*loopInfo{}
	for h, srcs := range be {
		li := &loopInfo{head: h, blocks: map[*ssa.BasicBlock]bool{h: true}}
		var stack []*ssa.BasicBlock
		for _, s := range srcs {
			if !li.blocks[s] {
				li.blocks[s] = true
				stack = append(stack, s)
			}
		}
		for len(stack) > 0 {
			b := stack[len(stack)-1]
			stack = stack[:len(stack)-1]
			for _, p := range b.Preds {
				if !li.blocks[p] {
					li.blocks[p] = true
					stack = append(stack, p)
				}
			}
		}
		loops[h] = li
	}
	return loops
}

// loopOrdinals assigns source-order ordinals (1-based) to loop headers by the position of the
// loop statement: approximated by the smallest source position of an instruction in the header
// block or, failing that, in the loop.
func (e *Exec) loopOrdinals(fn *ssa.Function, loops map[*ssa.BasicBlock]*loopInfo) {
	// Use the syntax: the k-th for/range statement in source order. Map each loop header to the
	// statement whose span contains the header's first positioned instruction and is innermost.
	var stmts []loopSpan
	if fd := e.funcDeclOf(fn); fd != nil {
		for _, s := range loopStmtsNode(fd) {
			stmts = append(stmts, loopSpan{s.Pos(), s.End()})
		}
	} else if lit, ok := fn.Syntax().(*ast.FuncLit); ok {
		for _, s := range loopStmtsBody(lit.Body) {
			stmts = append(stmts, loopSpan{s.Pos(), s.End()})
		}
	}
	for h, li := range loops {
		// candidate positions: instructions of all loop blocks; choose the innermost statement that
		// contains every positioned instruction of the loop's *header* and body.
		minPos, maxPos := token.Pos(0), token.Pos(0)
		for b := range li.blocks {
			for _, in := range b.Instrs {
				p := in.Pos()
				if dr, ok := in.(*ssa.DebugRef); ok {
					p = dr.Expr.Pos()
				}
				if !p.IsValid() {
					continue
				}
				if minPos == 0 || p < minPos {
					minPos = p
				}
				if p > maxPos {
					maxPos = p
				}
			}
		}
		best := -1
		for i, s := range stmts {
			if s.pos <= minPos && maxPos <= s.end {
				if best < 0 || (stmts[best].pos <= s.pos) {
					best = i
				}
			}
		}
		li.ord = best + 1
		_ = h
	}
}

type loopSpan struct{ pos, end token.Pos }

// ---------------------------------------------------------------------------------------------
// merging

type edgeIn struct {
	st   *State
	from *ssa.BasicBlock
}

func (e *Exec) merge(ins []edgeIn) *State {
	if len(ins) == 1 {
		return ins[0].st
	}
	out := &State{cells: map[*Cell]Value{}, heap: map[string]Term{}, locks: map[string]int{}, oldMode: ins[0].st.oldMode, epoch: ins[0].st.epoch}
	mixed := false
	for _, in := range ins {
		if in.st.epoch != out.epoch || in.st.etree != nil {
			mixed = true
		}
	}
	if mixed {
		// paths with different heap epochs: a component untouched so far resolves, when it is first
		// used after the join, to the base symbol of the epoch of whichever path was taken
		tr := &epochTree{}
		for _, in := range ins {
			sub := in.st.etree
			if sub == nil {
				sub = &epochTree{epoch: in.st.epoch}
			}
			tr.branches = append(tr.branches, epochBranch{pc: in.st.pc, sub: sub})
		}
		e.nepoch++
		out.epoch = e.nepoch
		out.etree = tr
	}
	var pcs []Term
	for _, in := range ins {
		pcs = append(pcs, in.st.pc)
	}
	out.pc = tOr(pcs...)
	if e.quant == 0 {
		out.pc = e.smt.define("pc", out.pc)
	}
	// cells
	cellSet := map[*Cell]bool{}
	for _, in := range ins {
		for c := range in.st.cells {
			cellSet[c] = true
		}
	}
	var cs []*Cell
	for c := range cellSet {
		cs = append(cs, c)
	}
	sort.Slice(cs, func(i, j int) bool { return cs[i].id < cs[j].id })
	for _, c := range cs {
		var vals []Value
		missing, nonTerm := false, false
		for _, in := range ins {
			v, ok := in.st.cells[c]
			if !ok {
				missing = true
				v = e.ti.zero(c.typ)
			} else if _, isT := v.(Term); !isT {
				nonTerm = true
			}
			vals = append(vals, v)
		}
		if missing {
			// a local declared on only some of the merged paths is dead after the join: drop it
			_ = nonTerm
			continue
		}
		out.cells[c] = e.mergeVals(c.name, ins, vals)
	}
	// heap
	compSet := map[string]bool{}
	for _, in := range ins {
		for k := range in.st.heap {
			compSet[k] = true
		}
	}
	for _, k := range sortedKeys(compSet) {
		var vals []Value
		for _, in := range ins {
			t, ok := in.st.heap[k]
			if !ok {
				// untouched on that path: initial symbol; sort from another path's term
				var srt string
				for _, in2 := range ins {
					if t2, ok2 := in2.st.heap[k]; ok2 {
						srt = t2.Sort
					}
				}
				t = e.heapComp(in.st, k, SInt, srt)
			}
			vals = append(vals, t)
		}
		out.heap[k] = e.mergeVals("h."+k, ins, vals).(Term)
	}
	// alloc
	var av []Value
	for _, in := range ins {
		av = append(av, in.st.alloc)
	}
	out.alloc = e.mergeVals("alloc", ins, av).(Term)
	// defers: must agree
	out.defers = ins[0].st.defers
	for _, in := range ins[1:] {
		if len(in.st.defers) != len(out.defers) {
			e.unsupported("conditionally registered defer")
		}
	}
	// held locks: those held on every incoming path (in the weaker of the modes)
	for k, v := range ins[0].st.locks {
		out.locks[k] = v
	}
	for _, in := range ins[1:] {
		for k, v := range out.locks {
			w, ok := in.st.locks[k]
			if !ok {
				delete(out.locks, k)
			} else if w < v {
				out.locks[k] = w
			}
		}
	}
	return out
}

func sameValue(a, b Value) bool {
	switch x := a.(type) {
	case Term:
		y, ok := b.(Term)
		return ok && x.S == y.S
	case *Ptr:
		y, ok := b.(*Ptr)
		return ok && x.key() == y.key()
	case *Closure:
		y, ok := b.(*Closure)
		return ok && x == y
	case *FuncVal:
		y, ok := b.(*FuncVal)
		return ok && x.Fn == y.Fn
	case nil:
		return b == nil
	}
	return false
}

func (e *Exec) mergeVals(name string, ins []edgeIn, vals []Value) Value {
	all := true
	for _, v := range vals[1:] {
		if !sameValue(vals[0], v) {
			all = false
		}
	}
	if all {
		return vals[0]
	}
	// need terms
	var ts []Term
	for i, v := range vals {
		t, ok := v.(Term)
		if !ok {
			if p, isP := v.(*Ptr); isP && p.Kind == pHeap && len(p.Path) == 0 {
				t = p.Ref
			} else {
				e.unsupported("merge of non-term values for %s (%T)", name, v)
				return vals[0]
			}
		}
		_ = i
		ts = append(ts, t)
	}
	r := ts[len(ts)-1]
	for i := len(ts) - 2; i >= 0; i-- {
		r = tIte(ins[i].st.pc, ts[i], r)
	}
	if e.quant == 0 {
		r = e.smt.define(name, r)
	}
	return r
}

// ---------------------------------------------------------------------------------------------
// running a function body

type retInfo struct {
	st   *State
	vals []Value
}

// run executes fn symbolically from state st (which is consumed) and returns the merged results.
// If every path ends in a panic the returned state is nil.
func (e *Exec) run(fn *ssa.Function, args []Value, bindings []Value, st *State, c *Contract) ([]Value, *State) {
	if fn.Blocks == nil {
		e.unsupported("function %s has no body", fn)
		return nil, st
	}
	e.depth++
	defer func() { e.depth-- }()
	if e.depth > 40 {
		e.unsupported("inlining depth exceeded at %s", fn)
		return nil, st
	}
	fr := &frame{fn: fn, vals: map[ssa.Value]Value{}, cells: map[*ssa.Alloc]*Cell{}, c: c, bindings: bindings,
		iterPos: map[ssa.Value]*Cell{}, iterCount: map[ssa.Value]*Cell{}, iterOf: map[ssa.Value]Value{}, args: args, rangeIdxCell: map[*ssa.BasicBlock]*Cell{}}
	for i, p := range fn.Params {
		if i < len(args) {
			fr.vals[p] = args[i]
		}
	}
	if n := len(e.frameStack); n > 0 {
		fr.parent = e.frameStack[n-1]
	}
	e.frameStack = append(e.frameStack, fr)
	defer func() { e.frameStack = e.frameStack[:len(e.frameStack)-1] }()
	fr.entryState = st.clone()
	loops := findLoops(fn)
	if len(loops) > 0 {
		e.loopOrdinals(fn, loops)
	}
	be := backEdges(fn)
	isBack := func(from, to *ssa.BasicBlock) bool {
		for _, s := range be[to] {
			if s == from {
				return true
			}
		}
		return false
	}
	// reverse postorder ignoring back edges
	var order []*ssa.BasicBlock
	visited := map[*ssa.BasicBlock]bool{}
	var dfs func(b *ssa.BasicBlock)
	dfs = func(b *ssa.BasicBlock) {
		visited[b] = true
		for i := len(b.Succs) - 1; i >= 0; i-- {
			s := b.Succs[i]
			if !visited[s] && !isBack(b, s) {
				dfs(s)
			}
		}
		order = append(order, b)
	}
	dfs(fn.Blocks[0])
	for i, j := 0, len(order)-1; i < j; i, j = i+1, j-1 {
		order[i], order[j] = order[j], order[i]
	}
	incoming := map[*ssa.BasicBlock][]edgeIn{}
	incoming[fn.Blocks[0]] = []edgeIn{{st: st}}
	edgeCond := map[[2]*ssa.BasicBlock]Term{}
	var rets []retInfo
	type loopCtx struct {
		variants []Term
		hdrState *State
	}
	lctx := map[*ssa.BasicBlock]*loopCtx{}

	for _, b := range order {
		ins := incoming[b]
		if len(ins) == 0 {
			continue
		}
		cur := e.merge(ins)
		// phi nodes need the per-edge conditions
		fr.curIns = ins
		fr.curBlock = b
		for _, li := range loops {
			if loopFollow(li) == b {
				e.loopExit(fr, cur, li, c)
			}
		}
		if li, isLoop := loops[b]; isLoop {
			cur = e.loopHead(fr, cur, li, c, func(v []Term) { lctx[b] = &loopCtx{variants: v} })
			if lctx[b] == nil {
				lctx[b] = &loopCtx{}
			}
		}
		alive := true
		for _, in := range b.Instrs {
			if !e.step(fr, cur, in, b) {
				alive = false
				break
			}
		}
		if !alive {
			continue
		}
		last := b.Instrs[len(b.Instrs)-1]
		switch t := last.(type) {
		case *ssa.Jump:
			e.flow(fr, cur, b, b.Succs[0], tTrue, incoming, loops, isBack, c, func(h *ssa.BasicBlock) []Term {
				if lctx[h] != nil {
					return lctx[h].variants
				}
				return nil
			})
		case *ssa.If:
			cond := e.term(fr, cur, t.Cond)
			s2 := cur.clone()
			getv := func(h *ssa.BasicBlock) []Term {
				if lctx[h] != nil {
					return lctx[h].variants
				}
				return nil
			}
			e.flow(fr, cur, b, b.Succs[0], cond, incoming, loops, isBack, c, getv)
			e.flow(fr, s2, b, b.Succs[1], tNot(cond), incoming, loops, isBack, c, getv)
		case *ssa.Return:
			var vs []Value
			for _, r := range t.Results {
				vs = append(vs, e.val(fr, cur, r))
			}
			rets = append(rets, retInfo{cur, vs})
		case *ssa.Panic:
			// handled in step (returns false)
		}
		_ = edgeCond
	}
	// a callee declared `maypanic` panicked: the frame's deferred calls run while unwinding; if one of
	// them recovers, the function returns through its recover block (the named results as they are)
	for _, ps := range fr.panicExits {
		ps.panicking = true
		ok := true
		for ok {
			n := len(ps.defers)
			if n == 0 || ps.defers[n-1].fr != fr {
				break
			}
			d := ps.defers[n-1]
			ps.defers = ps.defers[:n-1]
			if _, ok2 := e.callWith(fr, ps, nil, d.call, d.fnv, d.args); !ok2 {
				ok = false
			}
		}
		if !ok {
			continue
		}
		if ps.panicking || fn.Recover == nil {
			if e.topCt != nil && e.topCt.MayPanic {
				continue // the function under verification is itself declared maypanic: the panic propagates
			}
			e.oblige(ps, "safe", "safe.panic@unrecovered", tFalse, "a callee that may panic is called in "+fn.Name()+" without a deferred recover")
			continue
		}
		alive := true
		for _, in := range fn.Recover.Instrs {
			if _, isRD := in.(*ssa.RunDefers); isRD {
				continue
			}
			if !e.step(fr, ps, in, fn.Recover) {
				alive = false
				break
			}
		}
		if !alive {
			continue
		}
		if t, isRet := fn.Recover.Instrs[len(fn.Recover.Instrs)-1].(*ssa.Return); isRet {
			var vs []Value
			for _, r := range t.Results {
				vs = append(vs, e.val(fr, ps, r))
			}
			rets = append(rets, retInfo{ps, vs})
		}
	}
	if e.depth == 1 && e.spec == 0 {
		e.topRets = rets
	}
	if len(rets) == 0 {
		return nil, nil
	}
	if len(rets) == 1 {
		return rets[0].vals, rets[0].st
	}
	var eins []edgeIn
	for _, r := range rets {
		eins = append(eins, edgeIn{st: r.st})
	}
	out := e.merge(eins)
	n := len(rets[0].vals)
	res := make([]Value, n)
	for i := 0; i < n; i++ {
		var vs []Value
		for _, r := range rets {
			vs = append(vs, r.vals[i])
		}
		res[i] = e.mergeVals(fmt.Sprintf("ret%d", i), eins, vs)
	}
	return res, out
}

// flow propagates state along the edge from->to under cond.
func (e *Exec) flow(fr *frame, st *State, from, to *ssa.BasicBlock, cond Term, incoming map[*ssa.BasicBlock][]edgeIn,
	loops map[*ssa.BasicBlock]*loopInfo, isBack func(a, b *ssa.BasicBlock) bool, c *Contract, variants func(*ssa.BasicBlock) []Term) {
	if cond.S == "false" {
		return
	}
	if cond.S != "true" {
		st.pc = tAnd(st.pc, cond)
		if e.quant == 0 {
			st.pc = e.smt.define("pc", st.pc)
		}
	}
	if isBack(from, to) {
		e.backEdge(fr, st, loops[to], c, variants(to))
		return
	}

	incoming[to] = append(incoming[to], edgeIn{st: st, from: from})
}

// loopFollow returns the block control reaches after the loop statement (the "*.done" successor of
// the header outside the loop), where `after` clauses are checked: all exits (condition false,
// break, and the code on always-exiting paths inside the loop statement) have merged there.
func loopFollow(li *loopInfo) *ssa.BasicBlock {
	if li.follow != nil || li.followDone {
		return li.follow
	}
	li.followDone = true
	for _, s := range li.head.Succs {
		if !li.blocks[s] && strings.HasSuffix(s.Comment, ".done") {
			li.follow = s
			return s
		}
	}
	// infinite `for {}`: the done block is the target of break edges
	for b := range li.blocks {
		for _, s := range b.Succs {
			if !li.blocks[s] && s.Comment == "for.done" {
				li.follow = s
			}
		}
	}
	return li.follow
}

type boxed struct {
	v Value
	t types.Type
}
