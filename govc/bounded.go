package main

import (
	"fmt"
	"os"
	"os/exec"
	"path/filepath"
	"regexp"
	"strconv"
	"strings"
	"time"
)

// Bounded stand-ins.  A function whose contract is `trusted` (assumed at its call sites, not proved)
// may have a harness under /verif/bounded/<property>/: an exhaustive comparison of the real function
// with its executable specification up to a stated bound, run against the tree under check through a
// test overlay.  Its result is reported under coverage.bounded and is never counted as proved; a
// mismatch is a violation WITH a failing input.
//
// harness file header:   // bounded: pkg=<dir relative to the repository> run=<TestName> bound=<text>
type boundedResult struct {
	Harness     string  `json:"harness"`
	Pkg         string  `json:"pkg"`
	Bound       string  `json:"bound"`
	Evaluations int     `json:"evaluations"`
	Exhaustive  bool    `json:"exhaustive_within_bound"`
	Result      string  `json:"result"`
	TimeS       float64 `json:"time_s"`
}

var boundedHdr = regexp.MustCompile(`(?m)^// bounded: pkg=(\S+) run=(\S+) bound=(.*)$`)
var boundedEvals = regexp.MustCompile(`BOUNDED evaluations=(\d+)`)

func runBounded(prop, verifDir, repo string, violation func(name, body string)) []boundedResult {
	files, _ := filepath.Glob(filepath.Join(verifDir, "bounded", prop, "*_test.go"))
	var out []boundedResult
	for _, f := range files {
		src, err := os.ReadFile(f)
		if err != nil {
			continue
		}
		m := boundedHdr.FindSubmatch(src)
		if m == nil {
			continue
		}
		pkg, run, bound := string(m[1]), string(m[2]), strings.TrimSpace(string(m[3]))
		tmp, err := os.MkdirTemp("", "govc-bounded-*")
		if err != nil {
			continue
		}
		ov := filepath.Join(tmp, "ov.json")
		target := filepath.Join(repo, pkg, "zz_bounded_verif_test.go")
		os.WriteFile(ov, []byte(fmt.Sprintf("{\"Replace\": {%q: %q}}", target, f)), 0o644)
		t0 := time.Now()
		cmd := exec.Command("go", "test", "-tags", "verif", "-overlay", ov, "-vet=off", "-count=1", "-timeout", "600s", "-run", "^"+run+"$", "-v", "./"+pkg)
		cmd.Dir = repo
		cmd.Env = append(os.Environ(), "GOFLAGS=-mod=mod", "GOPROXY=off", "GOSUMDB=off", "GOTOOLCHAIN=local")
		b, _ := cmd.CombinedOutput()
		os.RemoveAll(tmp)
		text := string(b)
		r := boundedResult{Harness: filepath.Base(f), Pkg: pkg, Bound: bound, TimeS: round2(time.Since(t0).Seconds()), Exhaustive: true}
		if em := boundedEvals.FindStringSubmatch(text); em != nil {
			r.Evaluations, _ = strconv.Atoi(em[1])
		}
		switch {
		case strings.Contains(text, "BOUNDED-FAIL"):
			r.Result = "mismatch"
			var lines []string
			for _, l := range strings.Split(text, "\n") {
				if strings.Contains(l, "BOUNDED-FAIL") {
					lines = append(lines, strings.TrimSpace(l))
				}
			}
			fmt.Printf("FAILED bounded=%s %s\n", r.Harness, firstN(strings.Join(lines, " | "), 400))
			violation("bounded_"+strings.TrimSuffix(r.Harness, "_test.go"), fmt.Sprintf("property: %s\nbounded stand-in: %s (package %s, bound: %s)\nThe real function disagrees with its executable specification on these inputs:\n  %s\n\nreplay: go test -tags verif -overlay <%s as %s> -run '^%s$' ./%s\n",
				prop, r.Harness, pkg, bound, strings.Join(lines, "\n  "), f, "zz_bounded_verif_test.go", run, pkg))
		case strings.Contains(text, "\nok ") || strings.HasPrefix(text, "ok ") || strings.Contains(text, "--- PASS"):
			r.Result = "agree"
		default:
			r.Result = "not-run"
			fmt.Printf("UNDECIDED bounded=%s reason=harness did not build or run\n", r.Harness)
			violation("bounded_"+strings.TrimSuffix(r.Harness, "_test.go")+"_notrun", fmt.Sprintf("property: %s\nbounded stand-in %s could not be built or run on this tree:\n%s\nno-failing-input-found\n", prop, r.Harness, firstN(text, 3000)))
		}
		out = append(out, r)
	}
	return out
}
