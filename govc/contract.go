package main

// Contract files: `//@` comment clauses keyed by function and loop ordinal (Gobra style), kept in
// /repo behind the build tag `verif` (pkg/<p>/zz_contracts_verif.go), plus assumed contracts of
// external code in /verif/contracts/ext.  Every clause expression is Go extended with
// `==>`, `<==>`, `forall x T :: e`, `exists x T :: e`, `old(e)`; it is translated *mechanically*
// into a Go function that is type-checked together with the package and symbolically executed by
// the same engine that executes the real code (and can be called directly in a replay).

import (
	"fmt"
	"go/ast"
	"go/token"
	"go/types"
	"regexp"
	"sort"
	"strconv"
	"strings"
)

type Clause struct {
	Kind    string // requires, ensures, invariant, decreases, modifies
	Label   string
	Expr    string   // source text
	Loop    int      // for invariant/decreases
	Line    string   // file:line of the clause (for messages only)
	GenFn   string   // name of generated function
	Props   []string // optional per-clause property override
	Assumed bool     // label starts with "assumed": used at call sites, not checked on the body (trusted base)
	Locals  []string
}

type Contract struct {
	Key           string // "pkgpath.Func" or "pkgpath.(*T).M" / "pkgpath.(T).M"; for ext: "strings.Index" / "(*bytes.Buffer).WriteByte"
	PkgPath       string // package the contract is declared in
	Kind          string // func, ext, iface, lemma
	Sig           string // explicit signature text for ext / iface: "(s string, c byte) (r int)"
	Requires      []*Clause
	Ensures       []*Clause
	Loops         map[int][]*Clause
	Modifies      []string
	Decreases     *Clause
	CallbackInv   []*Clause
	CrashInv      []*Clause
	ModFn         string
	Inline        bool
	Pure          bool
	Trusted       bool // contract assumed, body not verified (repo function outside the subset)
	Opaque        bool // uninterpreted pure function: only its ensures are known
	NoPanicExempt bool
	MayPanic      bool
	Serves        []string
	Uses          []string
	Attrs         map[string]string
	Pos           string
	Lit           *ast.FuncLit
	Captured      []string                // closure contracts: names of captured variables (leading clause parameters)
	RidxVar       map[int]string          // loop ordinal -> index variable of an index loop `for i := ...`: a clause written for a range loop names `ridx`
	NameAlias     map[string]string       // recorded parameter / captured-variable name -> its name in the current tree (rename)
	LocalAlias    map[string]localBinding // locals named in loop clauses that the current tree no longer has under that name (rename): bound by type and ordinal

	// filled by generator
	ParamNames  []string // receiver first
	ParamTypes  []string
	ResultNames []string
	ResultTypes []string
	TypeParams  string
}

type ContractSet struct {
	Preds map[string]bool // pkgpath.name of pred-generated functions
	ByKey map[string]*Contract
	List  []*Contract
	// per package: extra Go source from the generator
}

var kwRe = regexp.MustCompile(`^(guard|pred|func|ext|iface|lemma|requires|ensures|modifies|loop|inline|pure|trusted|opaque|serves|uses|maypanic|attr|decreases|callbackinv|crashinv)\b`)

// parseContractComments extracts contracts from the //@ lines of a file.
func parseContractComments(fset *token.FileSet, f *ast.File, pkgPath string) ([]*Contract, error) {
	var out []*Contract
	var cur *Contract
	var lastClause *Clause
	var lastList *[]string
	for _, cg := range f.Comments {
		for _, c := range cg.List {
			if !isContractComment(c.Text) {
				continue
			}
			text := strings.TrimSpace(c.Text[strings.Index(c.Text, "@")+1:])
			pos := fset.Position(c.Pos())
			where := fmt.Sprintf("%s:%d", pos.Filename, pos.Line)
			if text == "" {
				continue
			}
			m := kwRe.FindString(text)
			if m == "" {
				// continuation
				if lastClause != nil {
					lastClause.Expr += " " + text
				} else if lastList != nil && len(*lastList) > 0 {
					joined := (*lastList)[len(*lastList)-1] + " " + text
					*lastList = (*lastList)[:len(*lastList)-1]
					for _, p := range splitTop(joined, ',') {
						*lastList = append(*lastList, strings.TrimSpace(p))
					}
				} else {
					return nil, fmt.Errorf("%s: continuation line without clause: %s", where, text)
				}
				continue
			}
			rest := strings.TrimSpace(text[len(m):])
			lastClause, lastList = nil, nil
			switch m {
			case "guard":
				// guard Type.field by lockfield      (lock discipline, C09)
				f := strings.Fields(rest)
				if len(f) != 3 || f[1] != "by" || !strings.Contains(f[0], ".") {
					return nil, fmt.Errorf("%s: guard needs 'Type.field by lockfield'", where)
				}
				cur = nil
				out = append(out, &Contract{PkgPath: pkgPath, Kind: "guard", Key: "guard:" + pkgPath + "." + f[0], Sig: f[2], Loops: map[int][]*Clause{}, Attrs: map[string]string{}, Pos: where})
			case "pred":
				// pred name(params) type = expr
				eq := findTop(rest, "=", false)
				for eq >= 0 && ((eq+1 < len(rest) && rest[eq+1] == '=') || (eq > 0 && strings.ContainsRune("=!<>", rune(rest[eq-1])))) {
					nx := findTop(rest[eq+2:], "=", false)
					if nx < 0 {
						eq = -1
						break
					}
					eq = eq + 2 + nx
				}
				if eq < 0 {
					return nil, fmt.Errorf("%s: pred needs '= expr'", where)
				}
				cur = &Contract{PkgPath: pkgPath, Kind: "pred", Loops: map[int][]*Clause{}, Attrs: map[string]string{}, Pos: where}
				cur.Sig = strings.TrimSpace(rest[:eq])
				cl := &Clause{Kind: "pred", Expr: strings.TrimSpace(rest[eq+1:]), Line: where}
				cur.Ensures = append(cur.Ensures, cl)
				cur.Key = "pred:" + pkgPath + "." + cur.Sig
				lastClause = cl
				out = append(out, cur)
			case "func", "ext", "iface", "lemma":
				cur = &Contract{PkgPath: pkgPath, Kind: m, Loops: map[int][]*Clause{}, Attrs: map[string]string{}, Pos: where}
				name := rest
				// split name and explicit signature: name ends before the first "(" that follows an identifier char at depth 0
				// forms: "parseMailboxName", "(*Session).mailHandler", "strings.Index(s string) (r int)", "(*bytes.Buffer).WriteByte(b *bytes.Buffer, c byte) (err error)"
				nm, sig := splitNameSig(name)
				cur.Sig = sig
				switch m {
				case "func", "lemma":
					cur.Key = pkgPath + "." + nm
				case "ext":
					cur.Key = nm
				case "iface":
					cur.Key = "iface:" + qualifyIface(nm, pkgPath)
				}
				out = append(out, cur)
			default:
				if cur == nil {
					return nil, fmt.Errorf("%s: clause outside contract", where)
				}
				switch m {
				case "requires", "ensures":
					label, props, e := splitLabel(rest)
					cl := &Clause{Kind: m, Label: label, Props: props, Expr: e, Line: where, Assumed: strings.HasPrefix(label, "assumed")}
					if m == "requires" {
						cur.Requires = append(cur.Requires, cl)
					} else {
						cur.Ensures = append(cur.Ensures, cl)
					}
					lastClause = cl
				case "loop":
					// loop N: invariant E | loop N: decreases E
					i := strings.Index(rest, ":")
					if i < 0 {
						return nil, fmt.Errorf("%s: bad loop clause", where)
					}
					n, err := strconv.Atoi(strings.TrimSpace(rest[:i]))
					if err != nil {
						return nil, fmt.Errorf("%s: bad loop ordinal", where)
					}
					r2 := strings.TrimSpace(rest[i+1:])
					var kind string
					switch {
					case strings.HasPrefix(r2, "invariant"):
						kind = "invariant"
					case strings.HasPrefix(r2, "decreases"):
						kind = "decreases"
					case strings.HasPrefix(r2, "after"):
						kind = "after"
					default:
						return nil, fmt.Errorf("%s: bad loop clause kind", where)
					}
					label, lprops, e := splitLabel(strings.TrimSpace(r2[len(kind):]))
					cl := &Clause{Kind: kind, Label: label, Props: lprops, Expr: e, Loop: n, Line: where, Assumed: strings.HasPrefix(label, "assumed")}
					cur.Loops[n] = append(cur.Loops[n], cl)
					lastClause = cl
				case "crashinv":
					lb, cprops, ex := splitLabel(rest)
					cl := &Clause{Kind: "crashinv", Label: lb, Props: cprops, Expr: ex, Line: where}
					cur.CrashInv = append(cur.CrashInv, cl)
					lastClause = cl
				case "callbackinv":
					cl := &Clause{Kind: "callbackinv", Expr: rest, Line: where}
					cur.CallbackInv = append(cur.CallbackInv, cl)
					lastClause = cl
				case "decreases":
					cl := &Clause{Kind: "decreases", Expr: rest, Line: where}
					cur.Decreases = cl
					lastClause = cl
				case "modifies":
					for _, p := range splitTop(rest, ',') {
						cur.Modifies = append(cur.Modifies, strings.TrimSpace(p))
					}
					lastList = &cur.Modifies
				case "inline":
					cur.Inline = true
				case "pure":
					cur.Pure = true
				case "trusted":
					cur.Trusted = true
				case "opaque":
					cur.Opaque = true
				case "maypanic":
					cur.MayPanic = true
				case "serves":
					cur.Serves = append(cur.Serves, strings.Fields(rest)...)
				case "uses":
					cur.Uses = append(cur.Uses, strings.Fields(rest)...)
				case "attr":
					kv := strings.SplitN(rest, "=", 2)
					if len(kv) == 2 {
						cur.Attrs[strings.TrimSpace(kv[0])] = strings.TrimSpace(kv[1])
					} else {
						cur.Attrs[strings.TrimSpace(rest)] = "true"
					}
				}
			}
		}
	}
	return out, nil
}

func qualifyIface(nm, pkgPath string) string {
	// "Store.AddMessage" -> pkgPath.Store.AddMessage ; "net.Conn.Close" / "net/textproto.X.M" are already qualified
	tail := nm
	if i := strings.LastIndex(nm, "/"); i >= 0 {
		tail = nm[i+1:]
	}
	if strings.Count(tail, ".") >= 2 {
		return nm
	}
	return pkgPath + "." + nm
}

func splitNameSig(s string) (string, string) {
	s = strings.TrimSpace(s)
	// receiver part
	i := 0
	if strings.HasPrefix(s, "(") {
		d := 0
		for i = 0; i < len(s); i++ {
			if s[i] == '(' {
				d++
			} else if s[i] == ')' {
				d--
				if d == 0 {
					i++
					break
				}
			}
		}
	}
	j := strings.IndexAny(s[i:], "( ")
	if j < 0 {
		return s, ""
	}
	return strings.TrimSpace(s[:i+j]), strings.TrimSpace(s[i+j:])
}

// splitLabel parses an optional "[label C01 C02]" prefix.
func splitLabel(s string) (string, []string, string) {
	s = strings.TrimSpace(s)
	if strings.HasPrefix(s, "[") {
		if i := strings.Index(s, "]"); i > 0 {
			f := strings.Fields(s[1:i])
			if len(f) > 0 {
				return f[0], f[1:], strings.TrimSpace(s[i+1:])
			}
		}
	}
	return "", nil, s
}

// splitTop splits s at top-level occurrences of sep (outside parens/brackets/braces/literals).
func splitTop(s string, sep byte) []string {
	var parts []string
	d := 0
	start := 0
	for i := 0; i < len(s); i++ {
		c := s[i]
		switch c {
		case '"', '\'', '`':
			i = skipLit(s, i)
		case '(', '[', '{':
			d++
		case ')', ']', '}':
			d--
		default:
			if c == sep && d == 0 {
				parts = append(parts, s[start:i])
				start = i + 1
			}
		}
	}
	parts = append(parts, s[start:])
	return parts
}

func skipLit(s string, i int) int {
	q := s[i]
	for j := i + 1; j < len(s); j++ {
		if s[j] == '\\' && q != '`' {
			j++
			continue
		}
		if s[j] == q {
			return j
		}
	}
	return len(s) - 1
}

// ---------------------------------------------------------------------------------------------
// Expression rewriting: contract expression -> Go expression

func isIdentChar(c byte) bool {
	return c == '_' || (c >= 'a' && c <= 'z') || (c >= 'A' && c <= 'Z') || (c >= '0' && c <= '9')
}

// findTop finds the first top-level occurrence of tok (operator text, or keyword if kw) in s.
func findTop(s string, tok string, kw bool) int {
	d := 0
	for i := 0; i < len(s); i++ {
		c := s[i]
		switch c {
		case '"', '\'', '`':
			i = skipLit(s, i)
			continue
		case '(', '[', '{':
			d++
			continue
		case ')', ']', '}':
			d--
			continue
		}
		if d == 0 && strings.HasPrefix(s[i:], tok) {
			if kw {
				if i > 0 && isIdentChar(s[i-1]) {
					continue
				}
				if i+len(tok) < len(s) && isIdentChar(s[i+len(tok)]) {
					continue
				}
			} else if tok == "==>" && i > 0 && s[i-1] == '<' {
				continue
			}
			return i
		}
	}
	return -1
}

func minPos(xs ...int) int {
	m := -1
	for _, x := range xs {
		if x >= 0 && (m < 0 || x < m) {
			m = x
		}
	}
	return m
}

// rewriteExpr translates the extended expression syntax into plain Go.
func rewriteExpr(s string) (string, error) {
	s = strings.TrimSpace(s)
	if s == "" {
		return "", fmt.Errorf("empty expression")
	}
	q := minPos(findTop(s, "forall", true), findTop(s, "exists", true))
	iff := findTop(s, "<==>", false)
	imp := findTop(s, "==>", false)
	if iff >= 0 && (q < 0 || iff < q) {
		l, err := rewriteExpr(s[:iff])
		if err != nil {
			return "", err
		}
		r, err := rewriteExpr(s[iff+4:])
		if err != nil {
			return "", err
		}
		return "((" + l + ") == (" + r + "))", nil
	}
	if imp >= 0 && (q < 0 || imp < q) {
		l, err := rewriteExpr(s[:imp])
		if err != nil {
			return "", err
		}
		r, err := rewriteExpr(s[imp+3:])
		if err != nil {
			return "", err
		}
		return "(!(" + l + ") || (" + r + "))", nil
	}
	if q >= 0 {
		prefix := s[:q]
		rest := s[q:]
		kind := "vcForall"
		if strings.HasPrefix(rest, "exists") {
			kind = "vcExists"
		}
		rest = rest[6:]
		i := findTop(rest, "::", false)
		if i < 0 {
			return "", fmt.Errorf("quantifier without '::' in %q", s)
		}
		binders := strings.TrimSpace(rest[:i])
		trig := ""
		body := strings.TrimSpace(rest[i+2:])
		if strings.HasPrefix(body, "{") {
			// triggers: { e1, e2 }
			j := matchClose(body, 0)
			if j < 0 {
				return "", fmt.Errorf("unterminated trigger in %q", s)
			}
			trig = body[1:j]
			body = strings.TrimSpace(body[j+1:])
		}
		b, err := rewriteExpr(body)
		if err != nil {
			return "", err
		}
		p, err := rewriteParens(prefix)
		if err != nil {
			return "", err
		}
		tr := ""
		if trig != "" {
			tparts := splitTop(trig, ',')
			var ts []string
			for _, t := range tparts {
				tt, err := rewriteExpr(t)
				if err != nil {
					return "", err
				}
				ts = append(ts, tt)
			}
			tr = fmt.Sprintf("vcTrigger%d(", len(ts)) + strings.Join(ts, ", ") + "); "
		}
		return p + " " + kind + "(func(" + binders + ") bool { " + tr + "return " + b + " })", nil
	}
	return rewriteParens(s)
}

func matchClose(s string, i int) int {
	d := 0
	for j := i; j < len(s); j++ {
		switch s[j] {
		case '"', '\'', '`':
			j = skipLit(s, j)
		case '(', '[', '{':
			d++
		case ')', ']', '}':
			d--
			if d == 0 {
				return j
			}
		}
	}
	return -1
}

// rewriteParens rewrites the contents of every parenthesised / bracketed group recursively and
// translates old(e).
func rewriteParens(s string) (string, error) {
	var b strings.Builder
	for i := 0; i < len(s); i++ {
		c := s[i]
		switch c {
		case '"', '\'', '`':
			j := skipLit(s, i)
			b.WriteString(s[i : j+1])
			i = j
		case '(', '[':
			j := matchClose(s, i)
			if j < 0 {
				return "", fmt.Errorf("unbalanced parentheses in %q", s)
			}
			inner := s[i+1 : j]
			isOld := c == '(' && strings.HasSuffix(strings.TrimRight(b.String(), " "), "old") && !endsWithLongerIdent(b.String(), "old")
			parts := splitTop(inner, ',')
			if c == '(' && findTop(inner, "::", false) >= 0 {
				// a parenthesised quantified formula (its binder list may contain commas)
				parts = []string{inner}
			}
			var rs []string
			for _, p := range parts {
				if strings.TrimSpace(p) == "" {
					rs = append(rs, p)
					continue
				}
				// slices like a[i:j] : split on ':' too
				if c == '[' {
					sub := splitTop(p, ':')
					var ss []string
					for _, x := range sub {
						if strings.TrimSpace(x) == "" {
							ss = append(ss, x)
							continue
						}
						r, err := rewriteExpr(x)
						if err != nil {
							return "", err
						}
						ss = append(ss, r)
					}
					rs = append(rs, strings.Join(ss, ":"))
					continue
				}
				r, err := rewriteExpr(p)
				if err != nil {
					return "", err
				}
				rs = append(rs, r)
			}
			if isOld {
				cur := strings.TrimRight(b.String(), " ")
				cur = cur[:len(cur)-3]
				b.Reset()
				b.WriteString(cur)
				b.WriteString("vcOld(vcOldBegin(), " + strings.Join(rs, ", ") + ")")
			} else {
				b.WriteByte(c)
				b.WriteString(strings.Join(rs, ","))
				b.WriteByte(s[j])
			}
			i = j
		default:
			b.WriteByte(c)
		}
	}
	return b.String(), nil
}

func endsWithLongerIdent(s, id string) bool {
	s = strings.TrimRight(s, " ")
	if !strings.HasSuffix(s, id) {
		return false
	}
	k := len(s) - len(id)
	return k > 0 && (isIdentChar(s[k-1]) || s[k-1] == '.')
}

// ---------------------------------------------------------------------------------------------
// Generation of the Go functions for the clauses of a package

const genHelpers = `
func vcForall[F any](f F) bool  { panic("vc: quantifier evaluated at run time") }
func vcExists[F any](f F) bool  { panic("vc: quantifier evaluated at run time") }
func vcTrigger1[A any](a A)                 {}
func vcTrigger2[A, B any](a A, b B)         {}
func vcTrigger3[A, B, C any](a A, b B, c C) {}
func vcOldBegin() int                        { return 0 }
func vcOld[T any](_ int, x T) T              { return x }
func vcMod1[T any](p *T)                     {}
func vcModElems[T any](s []T)                {}
func vcModMap[K comparable, V any](m map[K]V) {}
func vcFresh[T any](p T) bool                { return true }
func vcModGhost[T any](name string, obj T)    {}
func vcModGhostAll(name string)              {}
func vcSameSlice[T any](a, b []T) bool        { return len(a) == len(b) && (len(a) == 0 || &a[0] == &b[0]) }
func vcByteStr(c byte) string                { return string([]byte{c}) }

// vcTok is an abstract content value: what a reader yields / a writer has received / a file holds.
// Tokens are compared, never inspected: vcTokBytes(b) is a function of the bytes of b, vcTokStr(s) of
// the string, vcTokCat(a, b) is concatenation (vcTokEmpty() is its unit).
type vcTok = int

func vcTokBytes(b []byte) vcTok    { return 0 }
func vcTokStr(s string) vcTok      { return 0 }
func vcTokCat(a, b vcTok) vcTok    { return 0 }
func vcTokEmpty() vcTok            { return 0 }

// vcSeq is a mathematical sequence value (the contents of a slice's backing store at one moment);
// recursive specification functions take these, never the heap.  Indices are those of the backing
// store: element i of slice s is vcSeqAt(vcElemsOf(s), vcOff(s)+i); for the executable version the
// copy starts at 0 and vcOff is 0.
type vcSeq[T any] []T

func vcElemsOf[T any](s []T) vcSeq[T]   { return append(vcSeq[T](nil), s...) }
func vcOff[T any](s []T) int             { return 0 }
func vcSeqAt[T any](q vcSeq[T], i int) T { return q[i] }
func vcSameMap[K comparable, V any](a, b map[K]V) bool {
	panic("vc: map identity is a specification-only notion")
}
func vcHas[K comparable, V any](m map[K]V, k K) bool { _, ok := m[k]; return ok }

// vcSet is a mathematical set of keys (the visited set of a map iteration).
type vcSet[K comparable] map[K]bool

func vcIn[K comparable](s vcSet[K], k K) bool { return s[k] }
func vcMapSeq[T any](f func(int) T) vcSeq[T] { panic("vc: unbounded comprehension evaluated at run time") }
func vcIte[T any](c bool, a, b T) T {
	if c {
		return a
	}
	return b
}
`

type genCtx struct {
	cs      *ContractSet
	w       *World
	pkg     *Pkg
	qf      types.Qualifier
	imports map[string]string // path -> name
	b       strings.Builder
}

func (g *genCtx) typeStr(t types.Type) string {
	return types.TypeString(t, g.qf)
}

// findFuncDecl locates the declaration for key "Func" / "(*T).M" / "(T).M" in pkg.
func findFuncDecl(pk *Pkg, name string) *ast.FuncDecl {
	recv, fn := "", name
	if strings.HasPrefix(name, "(") {
		i := strings.Index(name, ").")
		if i < 0 {
			return nil
		}
		recv = strings.TrimPrefix(name[1:i], "*")
		fn = name[i+2:]
	}
	for _, f := range pk.Files {
		for _, d := range f.Decls {
			fd, ok := d.(*ast.FuncDecl)
			if !ok || fd.Name.Name != fn {
				continue
			}
			if recv == "" && fd.Recv == nil {
				return fd
			}
			if recv != "" && fd.Recv != nil && len(fd.Recv.List) == 1 {
				t := fd.Recv.List[0].Type
				if st, ok := t.(*ast.StarExpr); ok {
					t = st.X
				}
				// strip type params
				if ix, ok := t.(*ast.IndexExpr); ok {
					t = ix.X
				}
				if ix, ok := t.(*ast.IndexListExpr); ok {
					t = ix.X
				}
				if id, ok := t.(*ast.Ident); ok && id.Name == recv {
					return fd
				}
			}
		}
	}
	return nil
}

// loopStmts returns the for/range statements of a function body in source order.
func loopStmts(fd *ast.FuncDecl) []ast.Stmt {
	if fd.Body == nil {
		return nil
	}
	return loopStmtsBody(fd.Body)
}

func loopStmtsBody(body *ast.BlockStmt) []ast.Stmt {
	var out []ast.Stmt
	ast.Inspect(body, func(n ast.Node) bool {
		switch n.(type) {
		case *ast.FuncLit:
			return false
		case *ast.ForStmt, *ast.RangeStmt:
			out = append(out, n.(ast.Stmt))
		}
		return true
	})
	return out
}

var identRe = regexp.MustCompile(`[A-Za-z_][A-Za-z0-9_]*`)

// Generate produces the generated Go source for every package that has contracts.
func Generate(w *World, cs *ContractSet) error {
	byPkg := map[string][]*Contract{}
	for _, c := range cs.List {
		byPkg[c.PkgPath] = append(byPkg[c.PkgPath], c)
	}
	for path, list := range byPkg {
		pk := w.Pkgs[path]
		if pk == nil {
			return fmt.Errorf("contracts for unknown package %s", path)
		}
		lp := w.loaded[path] // phase-1 type info (nil for synthetic packages)
		g := &genCtx{cs: cs, w: w, pkg: pk, imports: map[string]string{}}
		g.qf = func(p *types.Package) string {
			if p.Path() == path {
				return ""
			}
			g.imports[p.Path()] = p.Name()
			return p.Name()
		}
		var body strings.Builder
		for _, c := range list {
			if err := g.genContract(c, lp, &body); err != nil {
				return err
			}
		}
		var src strings.Builder
		pkgName := ""
		if len(pk.Files) > 0 {
			pkgName = pk.Files[0].Name.Name
		}
		fmt.Fprintf(&src, "package %s\n\n", pkgName)
		// imports: those of the contract files of this package plus those needed by type strings
		imps := map[string]string{}
		for _, f := range pk.Files {
			hasC := false
			for _, cg := range f.Comments {
				for _, cm := range cg.List {
					if isContractComment(cm.Text) {
						hasC = true
					}
				}
			}
			if !hasC {
				continue
			}
			for _, im := range f.Imports {
				p, _ := strconv.Unquote(im.Path.Value)
				name := ""
				if im.Name != nil {
					name = im.Name.Name
				}
				imps[p] = name
			}
		}
		for p, n := range g.imports {
			if _, ok := imps[p]; !ok {
				imps[p] = n
			}
		}
		var ips []string
		for p := range imps {
			ips = append(ips, p)
		}
		sort.Strings(ips)
		for _, p := range ips {
			if imps[p] == "_" || imps[p] == "." {
				continue
			}
			if imps[p] != "" {
				fmt.Fprintf(&src, "import %s %q\n", imps[p], p)
			} else {
				fmt.Fprintf(&src, "import %q\n", p)
			}
		}
		if !hasHelpersOnDisk(pk) {
			src.WriteString(genHelpers)
		}
		src.WriteString(body.String())
		pk.GenSrc = src.String()
	}
	return nil
}

func sanitize(s string) string {
	var b strings.Builder
	for i := 0; i < len(s); i++ {
		if isIdentChar(s[i]) {
			b.WriteByte(s[i])
		} else if s[i] == '*' {
			b.WriteString("P")
		} else if s[i] == '.' || s[i] == '/' {
			b.WriteByte('_')
		}
	}
	return b.String()
}

func (g *genCtx) genContract(c *Contract, lp interface{}, out *strings.Builder) error {
	if c.Kind == "pred" {
		e, err := rewriteExpr(c.Ensures[0].Expr)
		if err != nil {
			return fmt.Errorf("%s: %v", c.Pos, err)
		}
		fmt.Fprintf(out, "\n// %s pred\nfunc %s { return %s }\n", c.Pos, c.Sig, e)
		if i := strings.Index(c.Sig, "("); i > 0 {
			g.cs.Preds[c.PkgPath+"."+strings.TrimSpace(c.Sig[:i])] = true
		}
		return nil
	}
	base := sanitize(strings.TrimPrefix(strings.TrimPrefix(c.Key, "iface:"), c.PkgPath+"."))
	var fd *ast.FuncDecl
	if (c.Kind == "func") && len(c.Requires)+len(c.Ensures)+len(c.Loops)+len(c.Modifies)+len(c.CallbackInv)+len(c.CrashInv) == 0 && c.Decreases == nil {
		// flags only (inline / opaque / trusted): nothing to generate
		return nil
	}
	switch c.Kind {
	case "func", "lemma":
		nm := strings.TrimPrefix(c.Key, c.PkgPath+".")
		if i := strings.LastIndex(nm, "$"); i > 0 {
			// closure contract: "Func$N" is the N-th function literal of Func
			ord, _ := strconv.Atoi(nm[i+1:])
			fd = findFuncDecl(g.pkg, nm[:i])
			var lit *ast.FuncLit
			if fd != nil {
				lit = nthFuncLit(fd, ord)
			}
			if fd == nil || lit == nil {
				c.Attrs["lost"] = "contract target " + nm + " not found in " + c.PkgPath
				return nil
			}
			if err := g.sigFromLit(c, fd, lit); err != nil {
				return err
			}
			c.Lit = lit
			break
		}
		fd = findFuncDecl(g.pkg, nm)
		if fd == nil {
			// lost obligation: reported by the binder later
			c.Attrs["lost"] = "contract target " + nm + " not found in " + c.PkgPath
			return nil
		}
		if err := g.sigFromDecl(c, fd); err != nil {
			return err
		}
	case "ext", "iface":
		if err := sigFromText(c); err != nil {
			return err
		}
	}
	params := g.paramList(c.ParamNames, c.ParamTypes)
	results := g.paramList(c.ResultNames, c.ResultTypes)
	all := params
	if results != "" {
		if all != "" {
			all += ", "
		}
		all += results
	}
	emit := func(cl *Clause, name, plist, rtype string) error {
		e, err := rewriteExpr(cl.Expr)
		if err != nil {
			return fmt.Errorf("%s: %v", cl.Line, err)
		}
		cl.GenFn = name
		fmt.Fprintf(out, "\n// %s %s: %s\nfunc %s%s(%s) %s { return %s }\n", cl.Line, cl.Kind, oneLine(cl.Expr), name, c.TypeParams, plist, rtype, e)
		return nil
	}
	for i, cl := range c.Requires {
		if err := emit(cl, fmt.Sprintf("vc_pre_%s_%d", base, i), params, "bool"); err != nil {
			return err
		}
	}
	for i, cl := range c.Ensures {
		if err := emit(cl, fmt.Sprintf("vc_post_%s_%d", base, i), all, "bool"); err != nil {
			return err
		}
	}
	for i, cl := range c.CrashInv {
		if err := emit(cl, fmt.Sprintf("vc_crash_%s_%d", base, i), params, "bool"); err != nil {
			return err
		}
	}
	for i, cl := range c.CallbackInv {
		if err := emit(cl, fmt.Sprintf("vc_cbinv_%s_%d", base, i), params, "bool"); err != nil {
			return err
		}
	}
	if c.Decreases != nil {
		e, err := rewriteExpr(c.Decreases.Expr)
		if err != nil {
			return fmt.Errorf("%s: %v", c.Decreases.Line, err)
		}
		c.Decreases.GenFn = "vc_decf_" + base
		fmt.Fprintf(out, "\nfunc %s%s(%s) int { return %s }\n", c.Decreases.GenFn, c.TypeParams, params, e)
	}
	if len(c.Modifies) > 0 {
		c.ModFn = "vc_mod_" + base
		var ms []string
		for _, m := range c.Modifies {
			if m == "*" || m == "nothing" || strings.TrimSpace(m) == "" {
				continue
			}
			ms = append(ms, m)
		}
		fmt.Fprintf(out, "\nfunc %s%s(%s) { %s }\n", c.ModFn, c.TypeParams, params, modStmts(ms))
	}
	// loops
	if len(c.Loops) > 0 {
		if fd == nil {
			return fmt.Errorf("%s: loop clauses on a function without source", c.Pos)
		}
		loops := loopStmts(fd)
		if c.Lit != nil {
			loops = loopStmtsBody(c.Lit.Body)
		}
		info := g.pkgInfo()
		var ords []int
		for k := range c.Loops {
			ords = append(ords, k)
		}
		sort.Ints(ords)
		for _, k := range ords {
			if k < 1 || k > len(loops) {
				c.Attrs["lost"] = fmt.Sprintf("loop %d of %s not found (function has %d loops)", k, c.Key, len(loops))
				continue
			}
			ls := loops[k-1]
			if fs, ok := ls.(*ast.ForStmt); ok && fs.Init != nil {
				if as, ok := fs.Init.(*ast.AssignStmt); ok && as.Tok == token.DEFINE && len(as.Lhs) == 1 {
					if id, ok := as.Lhs[0].(*ast.Ident); ok {
						if c.RidxVar == nil {
							c.RidxVar = map[int]string{}
						}
						c.RidxVar[k] = id.Name
					}
				}
			}
			for i, cl := range c.Loops[k] {
				// free identifiers that are locals visible at the loop
				names, typs, err := g.localsFor(cl.Expr, ls, fd, info, c)
				if err != nil {
					return fmt.Errorf("%s: %v", cl.Line, err)
				}
				plist := g.paramList(names, typs)
				rt := "bool"
				if cl.Kind == "decreases" {
					rt = "int"
				}
				cl.Locals = names
				if err := emit(cl, fmt.Sprintf("vc_%s_%s_%d_%d", map[string]string{"invariant": "inv", "decreases": "dec", "after": "aft"}[cl.Kind], base, k, i), plist, rt); err != nil {
					return err
				}
			}
		}
	}
	return nil
}

func modStmts(ms []string) string {
	var b strings.Builder
	for _, m := range ms {
		m = strings.TrimSpace(m)
		switch {
		case strings.HasPrefix(m, "elems(") && strings.HasSuffix(m, ")"):
			fmt.Fprintf(&b, "vcModElems(%s); ", m[6:len(m)-1])
		case strings.HasPrefix(m, "mapof(") && strings.HasSuffix(m, ")"):
			fmt.Fprintf(&b, "vcModMap(%s); ", m[6:len(m)-1])
		case strings.HasPrefix(m, "allof(") && strings.HasSuffix(m, ")"):
			fmt.Fprintf(&b, "vcModGhostAll(%q); ", m[6:len(m)-1])
		case strings.HasPrefix(m, "ghost_") && strings.HasSuffix(m, ")"):
			i := strings.Index(m, "(")
			fmt.Fprintf(&b, "vcModGhost(%q, %s); ", m[:i], m[i+1:len(m)-1])
		default:
			fmt.Fprintf(&b, "vcMod1(&%s); ", m)
		}
	}
	return b.String()
}

// modArg: "s.state" -> "&s.state"; "ghost_out(x)" stays a call; "elems(x)" -> vcModElems
func modArg(m string) string {
	m = strings.TrimSpace(m)
	if strings.HasSuffix(m, ")") {
		return m
	}
	return "&" + m
}

func oneLine(s string) string {
	return strings.Join(strings.Fields(s), " ")
}

func (g *genCtx) pkgInfo() *types.Info {
	if lp, ok := g.w.loaded[g.pkg.Path]; ok {
		return lp.TypesInfo
	}
	return nil
}

func (g *genCtx) paramList(names, typs []string) string {
	var ps []string
	for i := range names {
		ps = append(ps, names[i]+" "+typs[i])
	}
	return strings.Join(ps, ", ")
}

func (g *genCtx) sigFromDecl(c *Contract, fd *ast.FuncDecl) error {
	info := g.pkgInfo()
	if info == nil {
		return fmt.Errorf("no type info for %s", g.pkg.Path)
	}
	obj, _ := info.Defs[fd.Name].(*types.Func)
	if obj == nil {
		return fmt.Errorf("no object for %s", fd.Name.Name)
	}
	sig := obj.Type().(*types.Signature)
	c.ParamNames, c.ParamTypes, c.ResultNames, c.ResultTypes = nil, nil, nil, nil
	if r := sig.Recv(); r != nil {
		n := r.Name()
		if n == "" || n == "_" {
			n = "self"
		}
		c.ParamNames = append(c.ParamNames, n)
		c.ParamTypes = append(c.ParamTypes, g.typeStr(r.Type()))
		if tps := sig.RecvTypeParams(); tps != nil && tps.Len() > 0 {
			var ts []string
			for i := 0; i < tps.Len(); i++ {
				ts = append(ts, tps.At(i).Obj().Name()+" "+g.typeStr(tps.At(i).Constraint()))
			}
			c.TypeParams = "[" + strings.Join(ts, ", ") + "]"
		}
	}
	if tps := sig.TypeParams(); tps != nil && tps.Len() > 0 {
		var ts []string
		for i := 0; i < tps.Len(); i++ {
			ts = append(ts, tps.At(i).Obj().Name()+" "+g.typeStr(tps.At(i).Constraint()))
		}
		c.TypeParams = "[" + strings.Join(ts, ", ") + "]"
	}
	for i := 0; i < sig.Params().Len(); i++ {
		p := sig.Params().At(i)
		n := p.Name()
		if n == "" || n == "_" {
			n = fmt.Sprintf("arg%d", i)
		}
		t := g.typeStr(p.Type())
		if sig.Variadic() && i == sig.Params().Len()-1 {
			// keep as slice
		}
		c.ParamNames = append(c.ParamNames, n)
		c.ParamTypes = append(c.ParamTypes, t)
	}
	nr := sig.Results().Len()
	for i := 0; i < nr; i++ {
		r := sig.Results().At(i)
		n := r.Name()
		if n == "" || n == "_" {
			if nr == 1 {
				n = "ret"
			} else {
				n = fmt.Sprintf("ret%d", i)
			}
		}
		c.ResultNames = append(c.ResultNames, n)
		c.ResultTypes = append(c.ResultTypes, g.typeStr(r.Type()))
	}
	applyRecordedNames(c)
	return nil
}

// sigFromText parses "(a T, b U) (r V, err error)" into names/types.
func sigFromText(c *Contract) error {
	s := strings.TrimSpace(c.Sig)
	if !strings.HasPrefix(s, "(") {
		return fmt.Errorf("%s: ext/iface contract needs an explicit signature", c.Pos)
	}
	j := matchClose(s, 0)
	if j < 0 {
		return fmt.Errorf("%s: bad signature", c.Pos)
	}
	parse := func(t string) ([]string, []string, error) {
		var ns, ts []string
		t = strings.TrimSpace(t)
		if t == "" {
			return nil, nil, nil
		}
		for _, p := range splitTop(t, ',') {
			p = strings.TrimSpace(p)
			k := strings.IndexAny(p, " \t")
			if k < 0 {
				return nil, nil, fmt.Errorf("%s: parameter %q needs a name", c.Pos, p)
			}
			ns = append(ns, p[:k])
			ts = append(ts, strings.TrimSpace(p[k:]))
		}
		return ns, ts, nil
	}
	var err error
	c.ParamNames, c.ParamTypes, err = parse(s[1:j])
	if err != nil {
		return err
	}
	rest := strings.TrimSpace(s[j+1:])
	if rest != "" {
		if !strings.HasPrefix(rest, "(") {
			return fmt.Errorf("%s: results must be named and parenthesised", c.Pos)
		}
		k := matchClose(rest, 0)
		c.ResultNames, c.ResultTypes, err = parse(rest[1:k])
		if err != nil {
			return err
		}
	}
	return nil
}

// localsFor determines which identifiers of expr denote local variables (incl. parameters and
// named results) visible at the loop statement, with their types.
func (g *genCtx) localsFor(expr string, loop ast.Stmt, fd *ast.FuncDecl, info *types.Info, c *Contract) ([]string, []string, error) {
	var scope *types.Scope
	switch l := loop.(type) {
	case *ast.ForStmt:
		scope = info.Scopes[l]
	case *ast.RangeStmt:
		scope = info.Scopes[l]
	}
	if scope == nil {
		return nil, nil, fmt.Errorf("no scope for loop")
	}
	seen := map[string]bool{}
	var names, typs []string
	// strip string/char literals before scanning identifiers
	clean := stripLits(expr)
	for _, loc := range identRe.FindAllStringIndex(clean, -1) {
		id := clean[loc[0]:loc[1]]
		if loc[0] > 0 && clean[loc[0]-1] == '.' {
			continue // selector
		}
		if seen[id] {
			continue
		}
		seen[id] = true
		if id == "ridx" {
			names = append(names, "ridx")
			typs = append(typs, "int")
			continue
		}
		if id == "rvisited" {
			// visited set of a range-over-map loop: key type from the ranged expression
			if rs, ok := loop.(*ast.RangeStmt); ok {
				if mt, ok := info.TypeOf(rs.X).Underlying().(*types.Map); ok {
					names = append(names, "rvisited")
					typs = append(typs, "vcSet["+g.typeStr(mt.Key())+"]")
				}
			}
			continue
		}
		if isBoundIn(clean, id) {
			continue
		}
		if strings.HasPrefix(id, "in_") {
			for i, pn := range c.ParamNames {
				if pn == id[3:] {
					names = append(names, id)
					typs = append(typs, c.ParamTypes[i])
				}
			}
			continue
		}
		// look up starting at the loop scope, position = loop body start so init vars are visible
		pos := loop.Pos()
		switch l := loop.(type) {
		case *ast.ForStmt:
			pos = l.Body.Lbrace
		case *ast.RangeStmt:
			pos = l.Body.Lbrace
		}
		_, obj := scope.LookupParent(id, pos)
		v, ok := obj.(*types.Var)
		if obj == nil {
			if _, renamed := c.NameAlias[id]; renamed {
				// a parameter or captured variable the current tree has under another name
				for i, pn := range c.ParamNames {
					if pn == id {
						names = append(names, id)
						typs = append(typs, c.ParamTypes[i])
					}
				}
				continue
			}
			// not a name of the current tree: if the contract was bound to a local of that name when it
			// was written (bindings.json), a renamed local is found again by its type and ordinal
			if lb, ok := recordedLocal(c, id); ok {
				if c.LocalAlias == nil {
					c.LocalAlias = map[string]localBinding{}
				}
				c.LocalAlias[id] = lb
				names = append(names, id)
				typs = append(typs, lb.GoType)
				for ip, nm := range lb.Imports {
					g.imports[ip] = nm
				}
			}
			continue
		}
		if !ok || v.IsField() {
			continue
		}
		if v.Parent() == nil || v.Parent() == v.Pkg().Scope() {
			continue // package-level variable
		}
		names = append(names, id)
		typs = append(typs, g.typeStr(v.Type()))
	}
	return names, typs, nil
}

func stripLits(s string) string {
	b := []byte(s)
	for i := 0; i < len(b); i++ {
		if b[i] == '"' || b[i] == '\'' || b[i] == '`' {
			j := skipLit(s, i)
			for k := i; k <= j && k < len(b); k++ {
				b[k] = ' '
			}
			i = j
		}
	}
	return string(b)
}

// isBoundIn reports whether id is introduced by a quantifier binder in expr ("forall id T ::").
func isBoundIn(expr, id string) bool {
	re := regexp.MustCompile(`(forall|exists)\s+([^:]*\b)?` + regexp.QuoteMeta(id) + `\s+[A-Za-z_\[\]\*\.0-9]+\s*(,[^:]*)?::`)
	return re.MatchString(expr)
}

func hasHelpersOnDisk(pk *Pkg) bool {
	for _, f := range pk.Files {
		for _, d := range f.Decls {
			if fd, ok := d.(*ast.FuncDecl); ok && fd.Name.Name == "vcForall" {
				return true
			}
		}
	}
	return false
}

// HelperFileText is the content of pkg/<p>/zz_vc_verif.go (committed next to the contract file so
// that hand-written specification Go compiles under -tags verif).
func HelperFileText(pkgName string, tag bool) string {
	h := ""
	if tag {
		h = "//go:build verif\n\n"
	}
	return h + "// Code generated by govc (verification helpers); DO NOT EDIT.\n\npackage " + pkgName + "\n" + genHelpers
}

// isContractComment: "//@ ..." (and "// @ ...", which is what gofmt turns the former into inside
// doc comments).
func isContractComment(t string) bool {
	return strings.HasPrefix(t, "//@") || strings.HasPrefix(t, "// @")
}

// nthFuncLit returns the n-th (1-based, source order, outermost first as go/ssa numbers them)
// function literal directly inside fd (literals nested in literals are numbered by their own parent).
func nthFuncLit(fd *ast.FuncDecl, n int) *ast.FuncLit {
	var lits []*ast.FuncLit
	if fd.Body == nil {
		return nil
	}
	ast.Inspect(fd.Body, func(nd ast.Node) bool {
		if l, ok := nd.(*ast.FuncLit); ok {
			lits = append(lits, l)
			return false
		}
		return true
	})
	if n < 1 || n > len(lits) {
		return nil
	}
	return lits[n-1]
}

// sigFromLit: clause parameters of a closure contract are the captured variables (by name, in order
// of first use) followed by the literal's own parameters; results as for functions.
func (g *genCtx) sigFromLit(c *Contract, fd *ast.FuncDecl, lit *ast.FuncLit) error {
	info := g.pkgInfo()
	if info == nil {
		return fmt.Errorf("no type info for %s", g.pkg.Path)
	}
	c.ParamNames, c.ParamTypes, c.ResultNames, c.ResultTypes, c.Captured = nil, nil, nil, nil, nil
	seen := map[types.Object]bool{}
	ast.Inspect(lit.Body, func(nd ast.Node) bool {
		id, ok := nd.(*ast.Ident)
		if !ok {
			return true
		}
		v, ok := info.Uses[id].(*types.Var)
		if !ok || v.IsField() || seen[v] {
			return true
		}
		// declared inside the enclosing function but outside the literal
		if v.Pos() >= fd.Pos() && v.Pos() < fd.End() && !(v.Pos() >= lit.Pos() && v.Pos() < lit.End()) {
			seen[v] = true
			c.Captured = append(c.Captured, v.Name())
			c.ParamNames = append(c.ParamNames, v.Name())
			c.ParamTypes = append(c.ParamTypes, g.typeStr(v.Type()))
		}
		return true
	})
	sig := info.TypeOf(lit).(*types.Signature)
	for i := 0; i < sig.Params().Len(); i++ {
		p := sig.Params().At(i)
		n := p.Name()
		if n == "" || n == "_" {
			n = fmt.Sprintf("arg%d", i)
		}
		c.ParamNames = append(c.ParamNames, n)
		c.ParamTypes = append(c.ParamTypes, g.typeStr(p.Type()))
	}
	nr := sig.Results().Len()
	for i := 0; i < nr; i++ {
		r := sig.Results().At(i)
		n := r.Name()
		if n == "" || n == "_" {
			if nr == 1 {
				n = "ret"
			} else {
				n = fmt.Sprintf("ret%d", i)
			}
		}
		c.ResultNames = append(c.ResultNames, n)
		c.ResultTypes = append(c.ResultTypes, g.typeStr(r.Type()))
	}
	// Captured keeps the names of the current tree (the verifier finds the cells by them); the clause
	// functions take the recorded names, position by position, so a renamed captured variable keeps its contract
	applyRecordedNames(c)
	return nil
}
