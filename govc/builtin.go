package main

import (
	"fmt"
	"go/types"
	"regexp"
	"strings"

	"golang.org/x/tools/go/ssa"
)

const (
	pModElems = 100 + iota
	pModMap
	pModGhost
	pModGhostAll
)

func (e *Exec) builtin(fr *frame, st *State, c *ssa.CallCommon, b *ssa.Builtin, args []Value, where string) (Value, bool) {
	switch b.Name() {
	case "len":
		return e.lenOf(st, c.Args[0].Type(), args[0]), true
	case "cap":
		t := e.asTerm(st, args[0], c.Args[0].Type())
		if _, ok := c.Args[0].Type().Underlying().(*types.Slice); ok {
			return slCap(t), true
		}
		e.unsupported("cap of %s", c.Args[0].Type())
		return e.smt.fresh("cap", SInt), true
	case "append":
		return e.appendB(fr, st, c, args, where), true
	case "copy":
		return e.copyB(st, c, args, where), true
	case "delete":
		e.guardMapWrite(fr, st, c.Args[0], where)
		mt := c.Args[0].Type().Underlying().(*types.Map)
		m := e.asTerm(st, args[0], c.Args[0].Type())
		k := e.asTerm(st, args[1], c.Args[1].Type())
		e.mapDelete(st, mt, m, k)
		return &Tuple{}, true
	case "panic":
		e.oblige(st, "safe", "safe.panic", tFalse, where)
		return nil, false
	case "print", "println":
		return &Tuple{}, true
	case "close":
		return e.closeChan(st, c, args, where), true
	case "min", "max":
		a := e.asTerm(st, args[0], c.Args[0].Type())
		for i := 1; i < len(args); i++ {
			x := e.asTerm(st, args[i], c.Args[i].Type())
			if b.Name() == "min" {
				a = tIte(tLe(a, x), a, x)
			} else {
				a = tIte(tLe(a, x), x, a)
			}
		}
		return a, true
	case "ssa:deferstack":
		return tInt(0), true
	case "ssa:wrapnilchk":
		return args[0], true
	case "recover":
		if st.panicking {
			st.panicking = false
			v := e.smt.fresh("recovered", SInt)
			e.assume(st, tLt(v, tInt(0))) // a non-nil interface value
			return v, true
		}
		return tInt(0), true
	}
	e.unsupported("builtin %s", b.Name())
	return e.freshOf(st, "bi", c.Signature().Results()), true
}

func (e *Exec) lenOf(st *State, t types.Type, v Value) Term {
	x := e.asTerm(st, v, t)
	switch u := t.Underlying().(type) {
	case *types.Basic:
		return app(SInt, "slen", x)
	case *types.Slice:
		return slLen(x)
	case *types.Map:
		return e.mapLen(st, u, x)
	case *types.Array:
		return tInt(u.Len())
	case *types.Pointer:
		if a, ok := u.Elem().Underlying().(*types.Array); ok {
			return tInt(a.Len())
		}
	case *types.Chan:
		e.smt.declareFun("chanlen", []string{SInt}, SInt)
		return app(SInt, "chanlen", x)
	}
	e.unsupported("len of %s", t)
	return e.smt.fresh("len", SInt)
}

func (e *Exec) closeChan(st *State, c *ssa.CallCommon, args []Value, where string) Value {
	ch := e.asTerm(st, args[0], c.Args[0].Type())
	e.oblige(st, "safe", "safe.close@nil", tNot(tEq(ch, tInt(0))), where)
	e.oblige(st, "safe", "safe.close@closed", tNot(e.chanClosed(st, ch)), where)
	arr := e.heapComp(st, "G.ghost_closed", SInt, arraySort(SInt, SBool))
	e.setHeap(st, "G.ghost_closed", tStore(arr, ch, tTrue))
	return &Tuple{}
}

// appendB implements exact append semantics (in place when capacity suffices, else a fresh array).
func (e *Exec) appendB(fr *frame, st *State, c *ssa.CallCommon, args []Value, where string) Value {
	sl := c.Args[0].Type().Underlying().(*types.Slice)
	s := e.asTerm(st, args[0], c.Args[0].Type())
	if len(args) == 1 {
		return s
	}
	et := sl.Elem()
	// source
	var lt Term
	srcIsStr := false
	var tsl Term
	if bt, ok := c.Args[1].Type().Underlying().(*types.Basic); ok && bt.Info()&types.IsString != 0 {
		srcIsStr = true
		tsl = e.asTerm(st, args[1], c.Args[1].Type())
		lt = app(SInt, "slen", tsl)
	} else {
		tsl = e.asTerm(st, args[1], c.Args[1].Type())
		lt = slLen(tsl)
	}
	if e.quant == 0 {
		s = e.smt.define("aps", s)
		tsl = e.smt.define("apt", tsl)
	}
	n := tAdd(slLen(s), lt)
	fits := tLe(n, slCap(s))
	if e.spec == 0 && e.quickValid(st, fits, 1500) {
		// the capacity provably suffices: append writes in place, no reallocation branch
		return e.appendInPlace(fr, st, c, sl, s, tsl, lt, n, srcIsStr)
	}
	fresh := e.allocRef(st, "append")
	ncap := e.smt.fresh("ncap", SInt)
	e.assume(st, tLe(n, ncap))
	// single-element source?
	single := false
	if slv, ok := c.Args[1].(*ssa.Slice); ok && slv.Low == nil && slv.High == nil {
		if al, ok := slv.X.(*ssa.Alloc); ok {
			if at, ok := al.Type().(*types.Pointer).Elem().Underlying().(*types.Array); ok && at.Len() == 1 {
				single = true
			}
		}
	}
	for _, l := range leaves(et) {
		name, srt := e.ti.elemComp(et, l.path)
		as := arraySort(SInt, srt)
		H := e.heapComp(st, name, SInt, arraySort(SInt, as))
		oldS := tSelect(H, slArr(s), as)
		var srcAt func(k Term) Term
		if srcIsStr {
			srcAt = func(k Term) Term { return app(SInt, "sat", tsl, k) }
		} else {
			oldT := tSelect(H, slArr(tsl), as)
			srcAt = func(k Term) Term { return tSelect(oldT, tAdd(slOff(tsl), k), srt) }
		}
		dst := tAdd(slOff(s), slLen(s))
		var inPlace, copied Term
		if single {
			ev := srcAt(tInt(0))
			inPlace = tStore(oldS, dst, ev)
			copied = e.smt.fresh("apc", as)
			e.assume(st, Term{fmt.Sprintf("(forall ((i Int)) (! (=> (and (<= 0 i) (< i %s)) (= (select %s i) (select %s (+ %s i)))) :pattern ((select %s i))))",
				slLen(s).S, copied.S, oldS.S, slOff(s).S, copied.S), SBool})
			e.assume(st, tEq(tSelect(copied, slLen(s), srt), ev))
		} else {
			inPlace = e.smt.fresh("api", as)
			e.assume(st, Term{fmt.Sprintf("(forall ((i Int)) (! (= (select %s i) (ite (and (<= %s i) (< i (+ %s %s))) %s (select %s i))) :pattern ((select %s i))))",
				inPlace.S, dst.S, dst.S, lt.S, srcAt(tSub(Term{"i", SInt}, dst)).S, oldS.S, inPlace.S), SBool})
			copied = e.smt.fresh("apc", as)
			e.assume(st, Term{fmt.Sprintf("(forall ((i Int)) (! (=> (and (<= 0 i) (< i %s)) (= (select %s i) (ite (< i %s) (select %s (+ %s i)) %s))) :pattern ((select %s i))))",
				n.S, copied.S, slLen(s).S, oldS.S, slOff(s).S, srcAt(tSub(Term{"i", SInt}, slLen(s))).S, copied.S), SBool})
		}
		e.setHeap(st, name, tIte(fits, tStore(H, slArr(s), inPlace), tStore(H, fresh, copied)))
	}
	r := tIte(fits, mkSlice(slArr(s), slOff(s), n, slCap(s)), mkSlice(fresh, tInt(0), n, ncap))
	if e.quant == 0 {
		r = e.smt.define("appended", r)
	}
	return r
}

func (e *Exec) copyB(st *State, c *ssa.CallCommon, args []Value, where string) Value {
	sl := c.Args[0].Type().Underlying().(*types.Slice)
	d := e.asTerm(st, args[0], c.Args[0].Type())
	var lt Term
	srcIsStr := false
	src := e.asTerm(st, args[1], c.Args[1].Type())
	if bt, ok := c.Args[1].Type().Underlying().(*types.Basic); ok && bt.Info()&types.IsString != 0 {
		srcIsStr = true
		lt = app(SInt, "slen", src)
	} else {
		lt = slLen(src)
	}
	n := e.smt.define("copyn", tIte(tLe(slLen(d), lt), slLen(d), lt))
	et := sl.Elem()
	for _, l := range leaves(et) {
		name, srt := e.ti.elemComp(et, l.path)
		as := arraySort(SInt, srt)
		H := e.heapComp(st, name, SInt, arraySort(SInt, as))
		oldD := tSelect(H, slArr(d), as)
		var srcAt string
		if srcIsStr {
			srcAt = fmt.Sprintf("(sat %s (- i %s))", src.S, slOff(d).S)
		} else {
			srcAt = fmt.Sprintf("(select (select %s (s_arr %s)) (+ (s_off %s) (- i %s)))", H.S, src.S, src.S, slOff(d).S)
		}
		nw := e.smt.fresh("cpy", as)
		e.assume(st, Term{fmt.Sprintf("(forall ((i Int)) (! (= (select %s i) (ite (and (<= %s i) (< i (+ %s %s))) %s (select %s i))) :pattern ((select %s i))))",
			nw.S, slOff(d).S, slOff(d).S, n.S, srcAt, oldD.S, nw.S), SBool})
		e.setHeap(st, name, tStore(H, slArr(d), nw))
	}
	return n
}

// ---------------------------------------------------------------------------------------------
// external functions modelled in the engine (everything else needs an `ext` contract)

var ignoredPkgs = []string{
	"github.com/rs/zerolog",
	"expvar",
	"log",
}

func pkgPathOfFn(fn *ssa.Function) string {
	if o := fn.Origin(); o != nil {
		fn = o
	}
	if fn.Pkg != nil {
		return fn.Pkg.Pkg.Path()
	}
	if fn.Signature.Recv() != nil {
		rt := fn.Signature.Recv().Type()
		if p, ok := rt.(*types.Pointer); ok {
			rt = p.Elem()
		}
		if n, ok := rt.(*types.Named); ok && n.Obj().Pkg() != nil {
			return n.Obj().Pkg().Path()
		}
	}
	return ""
}

func (e *Exec) isIgnoredExt(fn *ssa.Function) bool {
	p := pkgPathOfFn(fn)
	for _, ip := range ignoredPkgs {
		if p == ip || strings.HasPrefix(p, ip+"/") {
			return true
		}
	}
	return false
}

func (e *Exec) isPureExtBuiltin(fn *ssa.Function) bool {
	switch fnKey(fn) {
	case "errors.New", "fmt.Errorf", "fmt.Sprintf", "fmt.Sprint", "errors.Is", "errors.As", "fmt.Printf", "fmt.Println", "fmt.Fprint",
		"regexp.MustCompile", "(*regexp.Regexp).FindStringSubmatch", "(*regexp.Regexp).FindAllStringSubmatch", "path/filepath.Join":
		return true
	}
	return pkgPathOfFn(fn) == "time"
}

func (e *Exec) extBuiltin(st *State, fn *ssa.Function, key string, args []Value, where string) (Value, bool) {
	return e.extBuiltinC(st, nil, fn, key, args, where)
}

func (e *Exec) nsubOf(pattern string) (n int, ok bool) {
	defer func() {
		if recover() != nil {
			ok = false
		}
	}()
	re, err := regexp.Compile(pattern)
	if err != nil {
		return 0, false
	}
	return re.NumSubexp(), true
}

// regexpGlobalFacts: a package-level *regexp.Regexp initialised by regexp.MustCompile(<const>) has a
// known number of capture groups.
func (e *Exec) regexpGlobalFacts(g *ssa.Global, t Term) {
	initFn := g.Pkg.Func("init")
	if initFn == nil {
		return
	}
	for _, b := range initFn.Blocks {
		for _, in := range b.Instrs {
			stI, ok := in.(*ssa.Store)
			if !ok || stI.Addr != g {
				continue
			}
			if call, ok := stI.Val.(*ssa.Call); ok {
				if sc := call.Call.StaticCallee(); sc != nil && fnKey(sc) == "regexp.MustCompile" {
					if cst, ok := call.Call.Args[0].(*ssa.Const); ok {
						if n, ok := e.nsubOf(constantString(cst)); ok {
							e.smt.declareFun("re.nsub", []string{SInt}, SInt)
							e.smt.axiom("nsub:"+t.S, fmt.Sprintf("(assert (and (= (re.nsub %s) %d) (not (= %s 0))))", t.S, n, t.S))
							e.trusted("regexp: a *Regexp built by MustCompile(<constant>) has the capture-group count computed by the engine with Go's regexp package; Find*Submatch return nil or slices of 1+groups strings")
						}
					}
				}
			}
		}
	}
}

func (e *Exec) extBuiltinC(st *State, c *ssa.CallCommon, fn *ssa.Function, key string, args []Value, where string) (Value, bool) {
	sig := fn.Signature
	if e.isIgnoredExt(fn) {
		e.trusted("D1: logging / metrics calls (zerolog, expvar, log) have no effect on program state")
		// results: non-nil references of the right type, arbitrary otherwise
		r := e.freshOf(st, "log", sig.Results())
		if t, ok := r.(Term); ok && sig.Results().Len() == 1 {
			if _, isPtr := sig.Results().At(0).Type().Underlying().(*types.Pointer); isPtr {
				e.assume(st, tNot(tEq(t, tInt(0))))
			}
		}
		return r, true
	}
	switch key {
	case "errors.New", "fmt.Errorf":
		e.trusted("errors.New / fmt.Errorf return a non-nil error")
		r := e.smt.fresh("err", SInt)
		e.assume(st, tNot(tEq(r, tInt(0))))
		// a freshly created error is distinct from every package-level sentinel
		e.assume(st, tLt(tInt(0), r))
		na := e.smt.fresh("alloc", SInt)
		e.assume(st, tAnd(tLt(st.alloc, r), tLe(r, na)))
		st.alloc = na
		return r, true
	case "fmt.Sprintf", "fmt.Sprint":
		r := e.smt.fresh("sprintf", SStr)
		if c != nil && key == "fmt.Sprintf" {
			if cst, ok := c.Args[0].(*ssa.Const); ok {
				f := constantString(cst)
				if i := strings.Index(f, "%"); i > 0 {
					e.trusted("fmt.Sprintf(<constant format>, ...) starts with the literal text before the first verb; the rest is arbitrary")
					return app(SStr, "scat", e.smt.strConst(f[:i]), r), true
				}
			}
		}
		e.trusted("fmt.Sprintf returns an arbitrary string")
		return r, true
	case "fmt.Fprint":
		e.trusted("D8: fmt.Fprint to a connection: the bytes written are not modelled (only counted in ghost_nwrites(w)); it may fail")
		r := e.freshOf(st, "fprint", sig.Results())
		if tp, ok := r.(*Tuple); ok && len(tp.Vals) == 2 {
			w := e.asTerm(st, args[0], sig.Params().At(0).Type())
			errT := tp.Vals[1].(Term)
			e.ghostSorts["ghost_nwrites"] = SInt
			arr := e.heapComp(st, "G.ghost_nwrites", SInt, arraySort(SInt, SInt))
			cur := tSelect(arr, w, SInt)
			e.setHeap(st, "G.ghost_nwrites", tStore(arr, w, tIte(tEq(errT, tInt(0)), tAdd(cur, tInt(1)), cur)))
			// Fprint(w, s) with a single string operand: what was written is that string (ghost_lastwrite(w))
			if c != nil && len(c.Args) == 2 {
				if slv, ok := c.Args[1].(*ssa.Slice); ok {
					if al, ok := slv.X.(*ssa.Alloc); ok {
						if at, ok := al.Type().(*types.Pointer).Elem().Underlying().(*types.Array); ok && at.Len() == 1 {
							sv := e.asTerm(st, args[1], c.Args[1].Type())
							name, srt := e.ti.elemComp(at.Elem(), nil)
							as := arraySort(SInt, srt)
							H := e.heapComp(st, name, SInt, arraySort(SInt, as))
							el := tSelect(tSelect(H, slArr(sv), as), app(SInt, "sidx", sv, tInt(0)), srt)
							f := "box." + smtIdent(typeShort(types.Typ[types.String]))
							e.smt.declareFun(f, []string{SStr}, SInt)
							e.smt.declareFun("un"+f, []string{SInt}, SStr)
							e.boxAxiom(f, SStr, e.ti.tagOf(types.Typ[types.String]))
							isStr := tEq(app(SInt, "dyntype", el), tInt(int64(e.ti.tagOf(types.Typ[types.String]))))
							e.ghostSorts["ghost_lastwrite"] = SStr
							lw := e.heapComp(st, "G.ghost_lastwrite", SInt, arraySort(SInt, SStr))
							keep := tSelect(lw, w, SStr)
							fresh := e.smt.fresh("written", SStr)
							e.setHeap(st, "G.ghost_lastwrite", tStore(lw, w, tIte(tEq(errT, tInt(0)), tIte(isStr, app(SStr, "un"+f, el), fresh), keep)))
						}
					}
				}
			}
		}
		return r, true
	case "fmt.Printf", "fmt.Println", "fmt.Fprintf":
		e.trusted("D1: fmt.Printf debug output has no effect on program state")
		return e.freshOf(st, "printf", sig.Results()), true
	case "sort.Slice":
		return e.sortSlice(st, args, where), true
	case "(*sync.Once).Do":
		// f runs exactly when no earlier Do of this Once has run (ghost flag ghost_onceDone)
		var cfn *ssa.Function
		var bindings []Value
		switch x := args[1].(type) {
		case *Closure:
			cfn, bindings = x.Fn, x.Bindings
		case *FuncVal:
			cfn = x.Fn
		}
		if cfn == nil || cfn.Blocks == nil {
			e.unsupported("sync.Once.Do with a function value that is not a literal at %s", where)
			e.havocAllHeap(st)
			return &Tuple{}, true
		}
		e.trusted("sync.Once.Do runs its argument exactly once per Once (ghost_onceDone)")
		ref := e.asTerm(st, args[0], sig.Params().At(0).Type())
		e.ghostSorts["ghost_onceDone"] = SBool
		e.ghostIdx["ghost_onceDone"] = ref.Sort
		arr := e.heapComp(st, "G.ghost_onceDone", ref.Sort, arraySort(ref.Sort, SBool))
		done := e.smt.define("oncedone", tSelect(arr, ref, SBool))
		skip := st.clone()
		skip.pc = e.smt.define("pc", tAnd(st.pc, done))
		run := st.clone()
		run.pc = e.smt.define("pc", tAnd(st.pc, tNot(done)))
		arr2 := e.heapComp(run, "G.ghost_onceDone", ref.Sort, arraySort(ref.Sort, SBool))
		e.setHeap(run, "G.ghost_onceDone", tStore(arr2, ref, tTrue))
		_, out := e.runInline(cfn, nil, bindings, run, e.cs.ByKey[fnKey(cfn)])
		var ins []edgeIn
		ins = append(ins, edgeIn{st: skip})
		if out != nil {
			ins = append(ins, edgeIn{st: out})
		}
		*st = *e.merge(ins)
		return &Tuple{}, true
	case "path/filepath.Join":
		// a deterministic function of its elements; the last element can be recovered (Base)
		if c != nil {
			if slv, ok := c.Args[0].(*ssa.Slice); ok {
				if al, ok := slv.X.(*ssa.Alloc); ok {
					if at, ok := al.Type().(*types.Pointer).Elem().Underlying().(*types.Array); ok && at.Len() <= 6 {
						sv := e.asTerm(st, args[0], c.Args[0].Type())
						name, srt := e.ti.elemComp(types.Typ[types.String], nil)
						as := arraySort(SInt, srt)
						H := e.heapComp(st, name, SInt, arraySort(SInt, as))
						var els []Term
						var sorts []string
						for i := int64(0); i < at.Len(); i++ {
							el := tSelect(tSelect(H, slArr(sv), as), tAdd(slOff(sv), tInt(i)), SStr)
							// the argument array of a variadic call is filled by stores right before the call:
							// take the stored value itself (a small term) instead of reading it back from the heap
							if e.curFrame != nil && e.curCall == c {
								if v := varargStore(c, al.Block(), al, i); v != nil {
									if t, ok := e.val(e.curFrame, st, v).(Term); ok && t.Sort == SStr {
										el = t
									}
								}
							}
							els = append(els, el)
							sorts = append(sorts, SStr)
						}
						f := fmt.Sprintf("fpjoin.%d", at.Len())
						e.smt.declareFun(f, sorts, SStr)
						e.smt.declareFun("fpbase", []string{SStr}, SStr)
						r := app(SStr, f, els...)
						e.trusted("filepath.Join is a deterministic function of its elements and its last element can be recovered (simple names)")
						if len(els) > 0 {
							e.assumeGlobalOrDrop(tEq(app(SStr, "fpbase", r), els[len(els)-1]))
						}
						if len(els) > 1 {
							// a path with a non-empty last element is longer than (hence different from) its first element
							e.assumeGlobalOrDrop(tImp(tLt(tInt(0), app(SInt, "slen", els[len(els)-1])), tLt(app(SInt, "slen", els[0]), app(SInt, "slen", r))))
						}
						return r, true
					}
				}
			}
		}
		return e.smt.fresh("fpjoin", SStr), true
	case "regexp.MustCompile":
		r := e.allocRef(st, "regexp")
		if c != nil {
			if cst, ok := c.Args[0].(*ssa.Const); ok {
				if n, ok := e.nsubOf(constantString(cst)); ok {
					e.smt.declareFun("re.nsub", []string{SInt}, SInt)
					e.assume(st, tEq(app(SInt, "re.nsub", r), tInt(int64(n))))
					e.trusted("regexp: a *Regexp built by MustCompile(<constant>) has the capture-group count computed by the engine with Go's regexp package; Find*Submatch return nil or slices of 1+groups strings")
				}
			}
		}
		return r, true
	case "(*regexp.Regexp).FindStringSubmatch":
		e.smt.declareFun("re.nsub", []string{SInt}, SInt)
		re := e.asTerm(st, args[0], sig.Recv().Type())
		ref := e.allocRef(st, "submatch")
		n := tAdd(app(SInt, "re.nsub", re), tInt(1))
		isNil := e.smt.fresh("nomatch", SBool)
		return tIte(isNil, nilSlice, mkSlice(ref, tInt(0), n, n)), true
	case "(*regexp.Regexp).FindAllStringSubmatch":
		e.smt.declareFun("re.nsub", []string{SInt}, SInt)
		re := e.asTerm(st, args[0], sig.Recv().Type())
		ref := e.allocRef(st, "allsubmatch")
		cnt := e.smt.fresh("nmatch", SInt)
		e.assume(st, tLe(tInt(1), cnt))
		isNil := e.smt.fresh("nomatch", SBool)
		// every element is a fresh slice of 1+groups strings
		name, srt := e.ti.elemComp(types.NewSlice(types.Typ[types.String]), nil)
		as := arraySort(SInt, srt)
		H := e.heapComp(st, name, SInt, arraySort(SInt, as))
		content := e.smt.fresh("matches", as)
		e.setHeap(st, name, tStore(H, ref, content))
		na := e.smt.fresh("alloc", SInt)
		e.assume(st, tLe(st.alloc, na))
		e.assume(st, Term{fmt.Sprintf("(forall ((i Int)) (! (=> (and (<= 0 i) (< i %s)) (and (= (s_len (select %s i)) (+ (re.nsub %s) 1)) (< %s (s_arr (select %s i))) (<= (s_arr (select %s i)) %s) (= (s_off (select %s i)) 0) (<= (s_len (select %s i)) (s_cap (select %s i))))) :pattern ((select %s i))))",
			cnt.S, content.S, re.S, st.alloc.S, content.S, content.S, na.S, content.S, content.S, content.S, content.S), SBool})
		st.alloc = na
		return tIte(isNil, nilSlice, mkSlice(ref, tInt(0), cnt, cnt)), true
	}
	if p := pkgPathOfFn(fn); p == "time" {
		e.trusted("time: instants and durations are opaque values; time functions have no effect on program state")
		return e.freshOf(st, "time", sig.Results()), true
	}
	return nil, false
}

// appendInPlace: append when len+added <= cap is known: the backing array is updated in place.
func (e *Exec) appendInPlace(fr *frame, st *State, c *ssa.CallCommon, sl *types.Slice, s, tsl, lt, n Term, srcIsStr bool) Value {
	et := sl.Elem()
	single := false
	if slv, ok := c.Args[1].(*ssa.Slice); ok && slv.Low == nil && slv.High == nil {
		if al, ok := slv.X.(*ssa.Alloc); ok {
			if at, ok := al.Type().(*types.Pointer).Elem().Underlying().(*types.Array); ok && at.Len() == 1 {
				single = true
			}
		}
	}
	for _, l := range leaves(et) {
		name, srt := e.ti.elemComp(et, l.path)
		as := arraySort(SInt, srt)
		H := e.heapComp(st, name, SInt, arraySort(SInt, as))
		oldS := tSelect(H, slArr(s), as)
		var srcAt func(k Term) Term
		if srcIsStr {
			srcAt = func(k Term) Term { return app(SInt, "sat", tsl, k) }
		} else {
			oldT := tSelect(H, slArr(tsl), as)
			srcAt = func(k Term) Term { return tSelect(oldT, tAdd(slOff(tsl), k), srt) }
		}
		dst := app(SInt, "sidx", s, slLen(s))
		var inPlace Term
		if single {
			inPlace = tStore(oldS, dst, srcAt(tInt(0)))
		} else {
			inPlace = e.smt.fresh("api", as)
			e.assume(st, Term{fmt.Sprintf("(forall ((i Int)) (! (= (select %s i) (ite (and (<= %s i) (< i (+ %s %s))) %s (select %s i))) :pattern ((select %s i))))",
				inPlace.S, dst.S, dst.S, lt.S, srcAt(tSub(Term{"i", SInt}, dst)).S, oldS.S, inPlace.S), SBool})
		}
		e.setHeap(st, name, tStore(H, slArr(s), inPlace))
	}
	r := mkSlice(slArr(s), slOff(s), n, slCap(s))
	if e.quant == 0 {
		r = e.smt.define("appended", r)
	}
	return r
}

// sortSlice models sort.Slice(x, less): afterwards the elements are a permutation of the elements
// before (two mutually inverse index maps) and no later element is `less` than an earlier one.  The
// closure is evaluated symbolically on the new contents.  (Assumed: D6.)
func (e *Exec) sortSlice(st *State, args []Value, where string) Value {
	e.trusted("D6: sort.Slice leaves a permutation of the slice that is ordered by the given less function")
	bt, ok := args[0].(Term)
	var bi boxed
	found := false
	if ok {
		key := bt.S
		for i := 0; i < 8; i++ {
			if b, ok := e.boxInfo[key]; ok {
				bi, found = b, true
				break
			}
			nx, ok := e.smt.alias[key]
			if !ok {
				break
			}
			key = nx
		}
	}
	sl, isSl := (types.Type)(nil), false
	if found {
		_, isSl = bi.t.Underlying().(*types.Slice)
		sl = bi.t
	}
	if !found || !isSl {
		e.unsupported("sort.Slice on a value whose slice cannot be identified at %s", where)
		e.havocAllHeap(st)
		return &Tuple{}
	}
	s := e.asTerm(st, bi.v, sl)
	et := sl.Underlying().(*types.Slice).Elem()
	if _, isStruct := et.Underlying().(*types.Struct); isStruct {
		e.unsupported("sort.Slice on a slice of structs at %s", where)
		e.havocAllHeap(st)
		return &Tuple{}
	}
	name, srt := e.ti.elemComp(et, nil)
	as := arraySort(SInt, srt)
	H := e.heapComp(st, name, SInt, arraySort(SInt, as))
	oldA := e.smt.define("sortold", tSelect(H, slArr(s), as))
	newA := e.smt.fresh("sorted", as)
	e.setHeap(st, name, tStore(H, slArr(s), newA))
	perm := e.smt.freshName("perm")
	inv := e.smt.freshName("perminv")
	e.smt.declareFun(perm, []string{SInt}, SInt)
	e.smt.declareFun(inv, []string{SInt}, SInt)
	off, ln := slOff(s).S, slLen(s).S
	sx := func(i string) string { return fmt.Sprintf("(sidx %s %s)", s.S, i) } // the index terms programs and contracts use
	e.assume(st, Term{fmt.Sprintf("(forall ((i Int)) (! (=> (and (<= 0 i) (< i %s)) (and (<= 0 (%s i)) (< (%s i) %s) (= (%s (%s i)) i) (= (select %s %s) (select %s %s)))) :pattern ((select %s %s)) :pattern ((%s i))))",
		ln, perm, perm, ln, inv, perm, newA.S, sx("i"), oldA.S, sx("("+perm+" i)"), newA.S, sx("i"), perm), SBool})
	e.assume(st, Term{fmt.Sprintf("(forall ((j Int)) (! (=> (and (<= 0 j) (< j %s)) (and (<= 0 (%s j)) (< (%s j) %s) (= (%s (%s j)) j) (= (select %s %s) (select %s %s)))) :pattern ((select %s %s)) :pattern ((%s j))))",
		ln, inv, inv, ln, perm, inv, oldA.S, sx("j"), newA.S, sx("("+inv+" j)"), oldA.S, sx("j"), inv), SBool})
	e.assume(st, Term{fmt.Sprintf("(forall ((a Int)) (! (=> (or (< a %s) (>= a (+ %s %s))) (= (select %s a) (select %s a))) :pattern ((select %s a))))", off, off, ln, newA.S, oldA.S, newA.S), SBool})
	// order: for i < j, not less(j, i)
	var fn *ssa.Function
	var bindings []Value
	switch x := args[1].(type) {
	case *Closure:
		fn, bindings = x.Fn, x.Bindings
	case *FuncVal:
		fn = x.Fn
	}
	if fn == nil {
		e.unsupported("sort.Slice with a non-literal less function at %s", where)
		return &Tuple{}
	}
	i := Term{"si!i", SInt}
	j := Term{"si!j", SInt}
	e.quant++
	e.spec++
	cp := st.clone()
	cp.pc = tAnd(tLe(tInt(0), i), tLt(i, j), tLt(j, slLen(s)))
	rs, out := e.runInline(fn, []Value{j, i}, bindings, cp, nil)
	e.spec--
	e.quant--
	if out != nil && len(rs) == 1 {
		lt := rs[0].(Term)
		e.assume(st, Term{fmt.Sprintf("(forall ((si!i Int) (si!j Int)) (! (=> (and (<= 0 si!i) (< si!i si!j) (< si!j %s)) (not %s)) :pattern ((select %s %s) (select %s %s))))", ln, lt.S, newA.S, sx("si!i"), newA.S, sx("si!j")), SBool})
	}
	return &Tuple{}
}

// varargStore: the value stored into element i of the compiler-generated argument array al of the
// variadic call c, if it is stored in the call's own block (and nowhere else).
func varargStore(c *ssa.CallCommon, blk *ssa.BasicBlock, al *ssa.Alloc, i int64) ssa.Value {
	if al.Comment != "varargs" {
		return nil
	}
	var found ssa.Value
	n := 0
	for _, ref := range *al.Referrers() {
		ia, ok := ref.(*ssa.IndexAddr)
		if !ok {
			continue
		}
		k, ok := ia.Index.(*ssa.Const)
		if !ok || k.Int64() != i {
			continue
		}
		for _, r2 := range *ia.Referrers() {
			if s, ok := r2.(*ssa.Store); ok && s.Addr == ia {
				n++
				if s.Block() == blk {
					found = s.Val
				}
			}
		}
	}
	if n != 1 {
		return nil
	}
	return found
}
