package main

import (
	"fmt"
	"os"

	"golang.org/x/tools/go/packages"
	"golang.org/x/tools/go/ssa"
	"golang.org/x/tools/go/ssa/ssautil"
)

func main() {
	cfg := &packages.Config{Mode: packages.LoadAllSyntax, Dir: "/repo", BuildFlags: []string{"-tags=verif"}}
	pkgs, err := packages.Load(cfg, os.Args[1])
	if err != nil {
		panic(err)
	}
	prog, spkgs := ssautil.AllPackages(pkgs, ssa.NaiveForm|ssa.GlobalDebug|ssa.InstantiateGenerics)
	prog.Build()
	for _, p := range spkgs {
		for _, name := range os.Args[2:] {
			if f := p.Func(name); f != nil {
				f.WriteTo(os.Stdout)
			}
		}
	}
	fmt.Println("ok")
}
