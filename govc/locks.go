package main

import (
	"fmt"
	"go/types"
	"sort"
	"strings"

	"golang.org/x/tools/go/ssa"
)

// Lock discipline (C09, reduced level).  The engine is sequential; what it can decide about
// concurrency is the discipline that makes the sequential reasoning about shared state meaningful:
//
//   guard T.f by L       every read of x.f needs x.L held (read or write mode), every write of x.f and
//                        every update of a map held in x.f needs x.L in write mode — unless x was
//                        allocated by the function under verification (not yet shared);
//   attr holds=p.L:w     the function is entered with p.L held (checked at its call sites);
//   lock order           a lock is acquired only while no other lock is held (the stores never nest);
//   balance              a function returns with exactly the locks it was entered with; Unlock of a
//                        lock that is not held is an error;
//   attr needs-fslock    every call of a file-system mutating function happens under some write lock.
//
// Locks are identified by the address of the sync.Mutex / sync.RWMutex (field address or pointer value).

const (
	lockRead  = 1
	lockWrite = 2
)

func isLockFn(key string) (op string, ok bool) {
	switch key {
	case "(*sync.Mutex).Lock", "(*sync.RWMutex).Lock":
		return "lock", true
	case "(*sync.RWMutex).RLock":
		return "rlock", true
	case "(*sync.Mutex).Unlock", "(*sync.RWMutex).Unlock":
		return "unlock", true
	case "(*sync.RWMutex).RUnlock":
		return "runlock", true
	}
	return "", false
}

func (e *Exec) lockChecking() bool {
	return e.spec == 0 && e.quant == 0 && has(e.props, "C09")
}

func (e *Exec) lockOp(st *State, op string, recv Value, recvT types.Type, where string) {
	if !e.lockChecking() {
		return
	}
	ref := e.asTerm(st, recv, recvT)
	key := ref.S
	e.nLockOps++
	switch op {
	case "lock", "rlock":
		// lock order: the stores never hold two locks at once
		if len(st.locks) > 0 {
			var held []string
			for k := range st.locks {
				held = append(held, k)
			}
			sort.Strings(held)
			e.oblige(st, "lock", "lock.order", tFalse, where+": acquiring a lock while holding "+firstN(strings.Join(held, ", "), 200))
		}
		mode := lockWrite
		if op == "rlock" {
			mode = lockRead
		}
		st.locks[key] = mode
	case "unlock", "runlock":
		want := lockWrite
		if op == "runlock" {
			want = lockRead
		}
		if m, ok := st.locks[key]; ok {
			if m != want {
				e.oblige(st, "lock", "lock.mode", tFalse, where+": unlock in the other mode than the lock was taken")
			}
			delete(st.locks, key)
			return
		}
		if len(st.locks) == 1 {
			for k, m := range st.locks {
				e.oblige(st, "lock", "lock.held", tEq(Term{k, SInt}, ref), where)
				if m != want {
					e.oblige(st, "lock", "lock.mode", tFalse, where+": unlock in the other mode than the lock was taken")
				}
				delete(st.locks, k)
			}
			return
		}
		e.oblige(st, "lock", "lock.held", tFalse, where+": unlock of a lock that is not held")
	}
}

// heldTerm: some held lock (of at least the given mode) is the lock `ref`.
func (e *Exec) heldTerm(st *State, ref Term, mode int) Term {
	var alts []Term
	var keys []string
	for k := range st.locks {
		keys = append(keys, k)
	}
	sort.Strings(keys)
	for _, k := range keys {
		if st.locks[k] >= mode {
			if k == ref.S {
				return tTrue
			}
			alts = append(alts, tEq(Term{k, SInt}, ref))
		}
	}
	if len(alts) == 0 {
		return tFalse
	}
	return tOr(alts...)
}

// guardOf: the lock field guarding field fi of the named struct type, if declared.
func (e *Exec) guardOf(structT types.Type, fi int) (int, bool) {
	n, ok := structT.(*types.Named)
	if !ok || n.Obj().Pkg() == nil {
		return 0, false
	}
	stt, ok := n.Underlying().(*types.Struct)
	if !ok {
		return 0, false
	}
	g := e.cs.ByKey["guard:"+n.Obj().Pkg().Path()+"."+n.Obj().Name()+"."+stt.Field(fi).Name()]
	if g == nil {
		return 0, false
	}
	for i := 0; i < stt.NumFields(); i++ {
		if stt.Field(i).Name() == g.Sig {
			return i, true
		}
	}
	e.unsupported("guard of %s.%s names unknown lock field %s", n.Obj().Name(), stt.Field(fi).Name(), g.Sig)
	return 0, false
}

// guardCheck: an access (write or read) to the field designated by p.
func (e *Exec) guardCheck(st *State, p *Ptr, write bool, where string) {
	if !e.lockChecking() || p == nil || p.Kind != pHeap || len(p.Path) == 0 {
		return
	}
	// the struct that directly contains the accessed field
	rt := p.Root
	for _, i := range p.Path[:len(p.Path)-1] {
		rt = rt.Underlying().(*types.Struct).Field(i).Type()
	}
	fi := p.Path[len(p.Path)-1]
	li, ok := e.guardOf(rt, fi)
	if !ok {
		return
	}
	stt := rt.Underlying().(*types.Struct)
	lp := &Ptr{Kind: pHeap, Ref: p.Ref, Root: p.Root, Path: append(append([]int{}, p.Path[:len(p.Path)-1]...), li), Type: stt.Field(li).Type()}
	var lockRef Term
	if _, isPtr := lp.Type.Underlying().(*types.Pointer); isPtr {
		lockRef = e.load(st, lp).(Term)
	} else {
		lockRef = e.asTerm(st, lp, types.NewPointer(lp.Type))
	}
	mode := lockRead
	kind := "read"
	if write {
		mode, kind = lockWrite, "write"
	}
	fresh := tLt(e.entryAlloc, p.Ref) // allocated by this function: not shared yet
	name := fmt.Sprintf("guard.%s@%s.%s", kind, typeShort(rt), stt.Field(fi).Name())
	held := e.heldTerm(st, lockRef, mode)
	e.nGuard++
	if held.S == "true" {
		e.nGuardSyntactic++
		return
	}
	e.oblige(st, "guard", name, tOr(fresh, held), where)
}

// guardedMapOperand: a map update / delete whose map operand is loaded from a guarded field.
func (e *Exec) guardMapWrite(fr *frame, st *State, m ssa.Value, where string) {
	if !e.lockChecking() {
		return
	}
	if u, ok := m.(*ssa.UnOp); ok {
		if fa, ok := u.X.(*ssa.FieldAddr); ok {
			if p, ok := fr.vals[fa].(*Ptr); ok {
				e.guardCheck(st, p, true, where)
			}
		}
	}
}

// holdsAttr: `attr holds=<param>.<lockfield>[:r|:w]` — the lock with which a function is entered.
func (e *Exec) holdsLock(st *State, ct *Contract, fn *ssa.Function, args []Value) (Term, int, bool) {
	h := ct.Attrs["holds"]
	if h == "" {
		return Term{}, 0, false
	}
	mode := lockWrite
	if strings.HasSuffix(h, ":r") {
		mode = lockRead
	}
	h = strings.TrimSuffix(strings.TrimSuffix(h, ":r"), ":w")
	parts := strings.SplitN(h, ".", 2)
	if len(parts) != 2 {
		return Term{}, 0, false
	}
	for i, p := range fn.Params {
		if p.Name() != parts[0] || i >= len(args) {
			continue
		}
		pt, ok := p.Type().Underlying().(*types.Pointer)
		if !ok {
			continue
		}
		stt, ok := pt.Elem().Underlying().(*types.Struct)
		if !ok {
			continue
		}
		for fi := 0; fi < stt.NumFields(); fi++ {
			if stt.Field(fi).Name() != parts[1] {
				continue
			}
			base := e.asPtr(args[i], p.Type())
			lp := &Ptr{Kind: pHeap, Ref: base.Ref, Root: pt.Elem(), Path: []int{fi}, Type: stt.Field(fi).Type()}
			if _, isPtr := lp.Type.Underlying().(*types.Pointer); isPtr {
				return e.load(st, lp).(Term), mode, true
			}
			return e.asTerm(st, lp, types.NewPointer(lp.Type)), mode, true
		}
	}
	return Term{}, 0, false
}
