package main

// tryReplay turns a solver model into a concrete in-package Go test and runs it against the real
// code (go test -overlay, nothing is written into the repository).  Returns a textual report; it
// contains REPLAY-CONFIRMED if the real code violated the clause on the model's input.
func tryReplay(s *Session, r *FuncResult, o *Obligation, sr *SolveResult, dir, repo string) string {
	return ""
}
