package main

import (
	"encoding/json"
	"fmt"
	"go/types"
	"os"
	"sort"
	"strings"

	"golang.org/x/tools/go/ssa"
)

// Bindings: contracts name parameters and locals of the functions they annotate.  A harmless edit
// that renames one of them must not lose the contract.  `govc bind` records, for the tree the
// contracts were written against, the parameter names of every function under contract (in order) and,
// for every local named in a loop clause, its type and its ordinal among the function's named locals of
// that type.  When a name is missing from the current tree the recorded position finds the variable
// again.  The file (/verif/bindings.json) is committed, never written by a check.
type localBinding struct {
	GoType string `json:"gotype"` // type as written in the package (for the generated clause function)
	Type   string `json:"type"`   // fully qualified type (for matching)
	Ord    int    `json:"ord"`    // ordinal among the named locals of that type, in source order
	// packages the written type refers to (import path -> package name)
	Imports map[string]string `json:"imports,omitempty"`
}

type fnBinding struct {
	Params  []string                `json:"params"`
	Results []string                `json:"results"`
	Locals  map[string]localBinding `json:"locals,omitempty"`
}

var recorded map[string]*fnBinding

func loadBindings(path string) {
	recorded = map[string]*fnBinding{}
	b, err := os.ReadFile(path)
	if err != nil {
		return
	}
	_ = json.Unmarshal(b, &recorded)
}

func applyRecordedNames(c *Contract) {
	fb := recorded[c.Key]
	if fb == nil {
		return
	}
	if len(fb.Params) == len(c.ParamNames) {
		for i, n := range fb.Params {
			if n != c.ParamNames[i] {
				if c.NameAlias == nil {
					c.NameAlias = map[string]string{}
				}
				c.NameAlias[n] = c.ParamNames[i]
			}
		}
		copy(c.ParamNames, fb.Params)
	}
	if len(fb.Results) == len(c.ResultNames) {
		copy(c.ResultNames, fb.Results)
	}
}

func recordedLocal(c *Contract, name string) (localBinding, bool) {
	fb := recorded[c.Key]
	if fb == nil {
		return localBinding{}, false
	}
	lb, ok := fb.Locals[name]
	return lb, ok
}

// namedAllocs: the named locals of fn in source order.
func namedAllocs(fn *ssa.Function) []*ssa.Alloc {
	var out []*ssa.Alloc
	for _, b := range fn.Blocks {
		for _, in := range b.Instrs {
			if a, ok := in.(*ssa.Alloc); ok && a.Comment != "" && isIdent(a.Comment) {
				out = append(out, a)
			}
		}
	}
	sort.SliceStable(out, func(i, j int) bool { return out[i].Pos() < out[j].Pos() })
	return out
}

func isIdent(s string) bool {
	for i, r := range s {
		if !(r == '_' || (r >= 'a' && r <= 'z') || (r >= 'A' && r <= 'Z') || (i > 0 && r >= '0' && r <= '9')) {
			return false
		}
	}
	return s != ""
}

func allocTypeKey(a *ssa.Alloc) string {
	return types.TypeString(a.Type().(*types.Pointer).Elem(), nil)
}

// allocByBinding finds the local a recorded binding denotes in the current function.
func allocByBinding(fn *ssa.Function, lb localBinding) *ssa.Alloc {
	k := 0
	for _, a := range namedAllocs(fn) {
		if allocTypeKey(a) == lb.Type {
			if k == lb.Ord {
				return a
			}
			k++
		}
	}
	return nil
}

// cmdBind writes bindings.json from the current tree.
func cmdBind(args []string) {
	repo, ext, out := "/repo", "/verif/contracts/ext", "/verif/bindings.json"
	if len(args) > 0 {
		out = args[0]
	}
	recorded = map[string]*fnBinding{}
	s, err := loadAll(repo, ext, []string{"./..."})
	if err != nil {
		fmt.Fprintln(os.Stderr, err)
		os.Exit(2)
	}
	res := map[string]*fnBinding{}
	for _, ct := range s.CS.List {
		if ct.Kind != "func" && ct.Kind != "lemma" {
			continue
		}
		fb := &fnBinding{Params: ct.ParamNames, Results: ct.ResultNames}
		fn := s.W.lookupFn(ct)
		if fn != nil {
			allocs := namedAllocs(fn)
			for _, cls := range ct.Loops {
				for _, cl := range cls {
					for _, n := range cl.Locals {
						if n == "ridx" || n == "rvisited" || strings.HasPrefix(n, "in_") {
							continue
						}
						var target *ssa.Alloc
						for _, a := range allocs {
							if a.Comment == n && (target == nil || a.Pos() > target.Pos()) {
								target = a
							}
						}
						if target == nil {
							continue
						}
						ord := 0
						for _, a := range allocs {
							if a == target {
								break
							}
							if allocTypeKey(a) == allocTypeKey(target) {
								ord++
							}
						}
						if fb.Locals == nil {
							fb.Locals = map[string]localBinding{}
						}
						pkg := fn.Pkg.Pkg
						if fn.Parent() != nil && fn.Parent().Pkg != nil {
							pkg = fn.Parent().Pkg.Pkg
						}
						imps := map[string]string{}
						gt := types.TypeString(target.Type().(*types.Pointer).Elem(), func(p *types.Package) string {
							if p == pkg {
								return ""
							}
							imps[p.Path()] = p.Name()
							return p.Name()
						})
						if len(imps) == 0 {
							imps = nil
						}
						fb.Locals[n] = localBinding{GoType: gt, Type: allocTypeKey(target), Ord: ord, Imports: imps}
					}
				}
			}
		}
		if len(fb.Params)+len(fb.Results)+len(fb.Locals) > 0 {
			res[ct.Key] = fb
		}
	}
	b, _ := json.MarshalIndent(res, "", " ")
	os.WriteFile(out, b, 0o644)
	fmt.Printf("%d functions recorded in %s\n", len(res), out)
}
