//go:build verif

// bounded: pkg=pkg/policy run=TestBoundedNaming bound=local parts of length <= 4 over {a,B,+,.,-} combined with 8 domain spellings (host names, IPv4 and IPv6 literals in mixed case), in the local, full and domain naming modes
package policy

import (
	"strings"
	"testing"

	"github.com/inbucket/inbucket/v3/pkg/config"
)

// Bounded stand-in for the part of C04 that the contracts do not reach (parseEmailAddress has a
// safety-only contract): on every enumerated address that RCPT TO accepts (NewRecipient succeeds),
// the mailbox name is non-empty, is a fixed point of ExtractMailbox, and does not change when the
// address is upper- or lower-cased or when a "+extension" is appended to the local part.
func TestBoundedNaming(t *testing.T) {
	alpha := []byte("aB+.-")
	var locals []string
	var gen func(cur []byte)
	gen = func(cur []byte) {
		if len(cur) > 0 {
			locals = append(locals, string(cur))
		}
		if len(cur) == 4 {
			return
		}
		for _, c := range alpha {
			gen(append(cur, c))
		}
	}
	gen(nil)
	domains := []string{"x.com", "X.Com", "a-b.Example.ORG", "[1.2.3.4]", "[IPv6:2001:DB8::1]", "[IPv6:2001:db8::1]", "h", "H.i"}
	modes := []int{0, 1, 2}
	n, bad := 0, 0
	fail := func(format string, args ...interface{}) {
		if bad < 5 {
			t.Errorf("BOUNDED-FAIL "+format, args...)
		}
		bad++
	}
	for _, mode := range modes {
		a := &Addressing{Config: &config.Root{}}
		switch mode {
		case 0:
			a.Config.MailboxNaming = config.LocalNaming
		case 1:
			a.Config.MailboxNaming = config.FullNaming
		default:
			a.Config.MailboxNaming = config.DomainNaming
		}
		for _, l := range locals {
			for _, d := range domains {
				addr := l + "@" + d
				n++
				if _, err := a.NewRecipient(addr); err != nil {
					continue // not an address RCPT TO accepts
				}
				name, err := a.ExtractMailbox(addr)
				if err != nil {
					fail("mode %v: RCPT accepts %q but ExtractMailbox fails: %v", mode, addr, err)
					continue
				}
				if name == "" {
					fail("mode %v: %q names the empty mailbox", mode, addr)
				}
				if again, err := a.ExtractMailbox(name); err != nil || again != name {
					fail("mode %v: name %q of %q is not a fixed point: ExtractMailbox(name) = %q, %v", mode, name, addr, again, err)
				}
				for _, v := range []string{strings.ToUpper(addr), strings.ToLower(addr)} {
					if _, err := a.NewRecipient(v); err != nil {
						continue
					}
					if other, err := a.ExtractMailbox(v); err != nil || other != name {
						fail("mode %v: %q is named %q but its other spelling %q is named %q (%v)", mode, addr, name, v, other, err)
					}
				}
				if !strings.Contains(l, "+") {
					ext := l + "+ext@" + d
					if _, err := a.NewRecipient(ext); err == nil {
						if other, err := a.ExtractMailbox(ext); err != nil || other != name {
							fail("mode %v: %q is named %q but %q is named %q (%v)", mode, addr, name, ext, other, err)
						}
					}
				}
			}
		}
	}
	if bad > 5 {
		t.Errorf("BOUNDED-FAIL (%d more)", bad-5)
	}
	t.Logf("BOUNDED evaluations=%d", n)
}
