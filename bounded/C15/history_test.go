//go:build verif

// bounded: pkg=pkg/msghub run=TestBoundedHistory bound=history lengths 0..4, every sequence of at most 7 operations (store a new message, delete any message stored so far), then one late joiner
package msghub

import (
	"context"
	"fmt"
	"strings"
	"testing"

	"github.com/inbucket/inbucket/v3/pkg/extension"
	"github.com/inbucket/inbucket/v3/pkg/extension/event"
)

// Bounded stand-in for the history half of C15, which the contracts do not reach (the cyclic
// container/ring is only summarised by an assumed contract): a listener that joins after an arbitrary
// short history of stored / deleted events is first replayed exactly those of the most recent N stored
// messages that have not since been deleted, oldest first.
type boundedListener struct{ got []string }

func (l *boundedListener) Receive(msg event.MessageMetadata) error {
	l.got = append(l.got, msg.ID)
	return nil
}
func (l *boundedListener) Delete(mailbox string, id string) error { return nil }

func TestBoundedHistory(t *testing.T) {
	const maxOps = 7
	n, bad := 0, 0
	var run func(hist int, ops []int)
	check := func(hist int, ops []int) {
		n++
		ctx, cancel := context.WithCancel(context.Background())
		defer cancel()
		hub := New(hist, extension.NewHost())
		go hub.Start(ctx)
		stored := 0
		var order []string // stored ids in order
		deleted := map[string]bool{}
		var desc []string
		for _, op := range ops {
			if op == 0 {
				stored++
				id := fmt.Sprintf("m%d", stored)
				order = append(order, id)
				hub.Dispatch(event.MessageMetadata{Mailbox: "box", ID: id})
				desc = append(desc, "store "+id)
			} else {
				id := fmt.Sprintf("m%d", op)
				deleted[id] = true
				hub.Delete("box", id)
				desc = append(desc, "delete "+id)
			}
		}
		hub.Sync()
		l := &boundedListener{}
		hub.AddListener(l)
		hub.Sync()
		// model: the most recent `hist` stored messages, minus the deleted ones, oldest first
		var want []string
		from := len(order) - hist
		if from < 0 {
			from = 0
		}
		for _, id := range order[from:] {
			if !deleted[id] {
				want = append(want, id)
			}
		}
		if strings.Join(l.got, ",") != strings.Join(want, ",") {
			if bad < 5 {
				t.Errorf("BOUNDED-FAIL history length %d, operations [%s]: a late joiner is replayed [%s], want [%s]", hist, strings.Join(desc, "; "), strings.Join(l.got, ","), strings.Join(want, ","))
			}
			bad++
		}
	}
	run = func(hist int, ops []int) {
		check(hist, ops)
		if len(ops) == maxOps {
			return
		}
		stored := 0
		for _, op := range ops {
			if op == 0 {
				stored++
			}
		}
		for op := 0; op <= stored; op++ {
			run(hist, append(append([]int{}, ops...), op))
		}
	}
	for hist := 0; hist <= 4; hist++ {
		run(hist, nil)
	}
	t.Logf("BOUNDED evaluations=%d mismatches=%d", n, bad)
}
