//go:build verif

// bounded: pkg=pkg/stringutil run=TestBoundedMatchWithWildcards bound=all patterns of length <= 5 over {a,b,.,*,?} against all inputs of length <= 5 over {a,b,.}
package stringutil

import "testing"

// Bounded stand-in for the trusted contract  MatchWithWildcards(p, s) == Spec_wmatch(p, s)  (for
// inputs without '*'): exhaustive comparison of the real function with the executable specification
// in zz_contracts_verif.go up to the stated bound.
func TestBoundedMatchWithWildcards(t *testing.T) {
	pat := []byte("ab.*?")
	inp := []byte("ab.")
	var all func(alpha []byte, n int, cur []byte, f func(string))
	all = func(alpha []byte, n int, cur []byte, f func(string)) {
		f(string(cur))
		if len(cur) == n {
			return
		}
		for _, c := range alpha {
			all(alpha, n, append(cur, c), f)
		}
	}
	var inputs []string
	all(inp, 5, nil, func(s string) { inputs = append(inputs, s) })
	n, bad := 0, 0
	all(pat, 5, nil, func(p string) {
		for _, s := range inputs {
			n++
			if got, want := MatchWithWildcards(p, s), Spec_wmatch(p, s); got != want && bad < 5 {
				bad++
				t.Errorf("BOUNDED-FAIL MatchWithWildcards(%q, %q) = %v, specification says %v", p, s, got, want)
			}
		}
	})
	t.Logf("BOUNDED evaluations=%d", n)
}
